// Package isoread is an independent ECMA-119 (ISO 9660) + Joliet reader and a
// validator for exactly the invariants property C08 lists (DESIGN Appendix D).
// It is written from the standard and shares no code with pkg/fs.
package isoread

import (
	"bytes"
	"encoding/binary"
	"fmt"
	"io"
	"sort"
	"unicode/utf16"
)

const Sector = 2048

// Problem is one violated clause.
type Problem struct {
	Clause string
	Msg    string
}

func (p Problem) Error() string { return p.Clause + ": " + p.Msg }

type Extent struct {
	LBA uint32
	Len uint32
}

// Record is one decoded directory record.
type Record struct {
	Pos      int64 // absolute byte position in the image
	Len      int
	ExtLBA   uint32
	DataLen  uint32
	Flags    byte
	UnitSize byte
	Gap      byte
	VolSeq   uint16
	RawName  []byte
	BothOK   bool // LE == BE for extent, length, volseq
	NameFits bool
	Date     [7]byte
}

func (r Record) IsDir() bool { return r.Flags&0x02 != 0 }
func (r Record) Multi() bool { return r.Flags&0x80 != 0 }

// Entry is a file or directory of one hierarchy.
type Entry struct {
	Name     string // decoded identifier (Joliet: UTF-16BE decoded)
	RawName  []byte
	IsDir    bool
	Extents  []Extent // files: one per record of a multi-extent run
	Size     int64
	Parent   *Entry
	Children []*Entry // directories
	// directories:
	DirLBA  uint32
	DirLen  uint32
	Records []Record // all records of the directory extent, in order
	Rec     Record   // the (last) record in the parent that names this entry
}

func (e *Entry) Path() string {
	if e.Parent == nil {
		return ""
	}
	p := e.Parent.Path()
	if p == "" {
		return e.Name
	}
	return p + "/" + e.Name
}

type PTEntry struct {
	Name    []byte
	LBA     uint32
	Parent  uint16
	ExtAttr byte
}

type Hier struct {
	Joliet    bool
	DescLBA   uint32
	Type      byte
	SpaceLE   uint32
	SpaceBE   uint32
	SetSize   [2]uint16
	SeqNo     [2]uint16
	BlockSize [2]uint16
	PTSize    [2]uint32
	LLoc      uint32
	MLoc      uint32
	RootRec   Record
	Escape    []byte
	Root      *Entry
	Dirs      []*Entry // every directory reachable from the root, pre-order
	Files     []*Entry
	PTL, PTM  []PTEntry
	PTLRaw    []byte
	PTMRaw    []byte
}

type Vol struct {
	R        io.ReaderAt
	Size     int64 // image length in bytes
	Primary  *Hier
	Joliet   *Hier
	TermOK   bool
	Problems []Problem
}

func (v *Vol) prob(clause, format string, a ...any) {
	if len(v.Problems) < 200 {
		v.Problems = append(v.Problems, Problem{clause, fmt.Sprintf(format, a...)})
	}
}

func (v *Vol) read(off int64, n int) ([]byte, error) {
	if off < 0 || off+int64(n) > v.Size {
		return nil, fmt.Errorf("read [%d,+%d) outside image of %d bytes", off, n, v.Size)
	}
	buf := make([]byte, n)
	got, err := v.R.ReadAt(buf, off)
	if got == n {
		return buf, nil
	}
	if err == nil {
		err = io.ErrUnexpectedEOF
	}
	return nil, fmt.Errorf("read [%d,+%d): got %d: %w", off, n, got, err)
}

func parseRecord(b []byte, abs int64) Record {
	r := Record{Pos: abs, Len: int(b[0])}
	r.ExtLBA = binary.LittleEndian.Uint32(b[2:6])
	r.DataLen = binary.LittleEndian.Uint32(b[10:14])
	r.BothOK = r.ExtLBA == binary.BigEndian.Uint32(b[6:10]) && r.DataLen == binary.BigEndian.Uint32(b[14:18]) &&
		binary.LittleEndian.Uint16(b[28:30]) == binary.BigEndian.Uint16(b[30:32])
	copy(r.Date[:], b[18:25])
	r.Flags, r.UnitSize, r.Gap = b[25], b[26], b[27]
	r.VolSeq = binary.LittleEndian.Uint16(b[28:30])
	nl := int(b[32])
	pad := 0
	if nl%2 == 0 {
		pad = 1
	}
	r.NameFits = r.Len >= 33+nl+pad && 33+nl <= len(b)
	if 33+nl <= len(b) {
		r.RawName = append([]byte(nil), b[33:33+nl]...)
	}
	return r
}

func decodeName(raw []byte, joliet bool) string {
	if len(raw) == 1 && (raw[0] == 0 || raw[0] == 1) {
		return string(raw)
	}
	if !joliet {
		return string(raw)
	}
	if len(raw)%2 != 0 {
		return string(raw) // malformed; reported by the caller
	}
	u := make([]uint16, len(raw)/2)
	for i := range u {
		u[i] = binary.BigEndian.Uint16(raw[2*i:])
	}
	return string(utf16.Decode(u))
}

// Parse reads descriptors, both hierarchies and the four path tables.
// Structural damage that prevents reading is returned as error; everything
// that can be expressed as a violated clause goes to Problems.
func Parse(r io.ReaderAt, size int64) (*Vol, error) {
	v := &Vol{R: r, Size: size}
	if size < 19*Sector {
		return nil, fmt.Errorf("image of %d bytes has no room for the descriptors", size)
	}
	for i, want := range []byte{1, 2, 255} {
		d, err := v.read(int64(16+i)*Sector, Sector)
		if err != nil {
			return nil, err
		}
		// ECMA-119 8.1.3 / 8.3.3 / 8.4.3: every descriptor, the set terminator included, carries version 1
		// (readers such as libarchive refuse a volume whose terminator says otherwise)
		if d[0] != want || string(d[1:6]) != "CD001" || d[6] != 1 {
			v.prob("descriptors-in-place", "sector %d: type %d id %q version %d (want type %d CD001)", 16+i, d[0], d[1:6], d[6], want)
			if want != 255 {
				return v, fmt.Errorf("descriptor at sector %d unusable", 16+i)
			}
			continue
		}
		if want == 255 {
			v.TermOK = true
			continue
		}
		h := &Hier{Joliet: want == 2, DescLBA: uint32(16 + i), Type: d[0]}
		h.SpaceLE, h.SpaceBE = binary.LittleEndian.Uint32(d[80:84]), binary.BigEndian.Uint32(d[84:88])
		h.Escape = bytes.TrimRight(d[88:120], "\x00")
		h.SetSize = [2]uint16{binary.LittleEndian.Uint16(d[120:122]), binary.BigEndian.Uint16(d[122:124])}
		h.SeqNo = [2]uint16{binary.LittleEndian.Uint16(d[124:126]), binary.BigEndian.Uint16(d[126:128])}
		h.BlockSize = [2]uint16{binary.LittleEndian.Uint16(d[128:130]), binary.BigEndian.Uint16(d[130:132])}
		h.PTSize = [2]uint32{binary.LittleEndian.Uint32(d[132:136]), binary.BigEndian.Uint32(d[136:140])}
		h.LLoc = binary.LittleEndian.Uint32(d[140:144])
		h.MLoc = binary.BigEndian.Uint32(d[148:152])
		h.RootRec = parseRecord(d[156:190], int64(16+i)*Sector+156)
		if want == 1 {
			v.Primary = h
		} else {
			v.Joliet = h
			if string(h.Escape) != "%/@" && string(h.Escape) != "%/C" && string(h.Escape) != "%/E" {
				v.prob("descriptors-in-place", "supplementary descriptor escape sequence %q is not a Joliet one", h.Escape)
			}
		}
	}
	for _, h := range []*Hier{v.Primary, v.Joliet} {
		if h == nil {
			continue
		}
		if err := v.walk(h); err != nil {
			return v, err
		}
		v.readPathTables(h)
	}
	return v, nil
}

const maxDirs = 200000

func (v *Vol) walk(h *Hier) error {
	root := &Entry{Name: "", IsDir: true, DirLBA: h.RootRec.ExtLBA, DirLen: h.RootRec.DataLen, Rec: h.RootRec}
	h.Root = root
	seen := map[uint32]bool{}
	var rec func(d *Entry, depth int) error
	rec = func(d *Entry, depth int) error {
		if depth > 64 {
			v.prob("links-consistent", "directory nesting deeper than 64 at %q", d.Path())
			return nil
		}
		if len(h.Dirs) >= maxDirs {
			return fmt.Errorf("more than %d directories", maxDirs)
		}
		// every directory record counts as a directory of the volume (a reader lists it), also one whose extent
		// was reached before; only the descent stops there
		h.Dirs = append(h.Dirs, d)
		if seen[d.DirLBA] {
			v.prob("links-consistent", "directory extent %d reached twice (at %q)", d.DirLBA, d.Path())
			return nil
		}
		seen[d.DirLBA] = true
		if d.DirLen == 0 || d.DirLen%Sector != 0 {
			v.prob("dir-extent-size", "directory %q extent length %d is not a positive multiple of 2048", d.Path(), d.DirLen)
		}
		if d.DirLen > 64<<20 {
			return fmt.Errorf("directory %q extent of %d bytes", d.Path(), d.DirLen)
		}
		buf, err := v.read(int64(d.DirLBA)*Sector, int(d.DirLen))
		if err != nil {
			v.prob("extents-inside-volume", "directory %q: %v", d.Path(), err)
			return nil
		}
		pos := 0
		var run *Entry // current multi-extent run
		for pos < len(buf) {
			l := int(buf[pos])
			secEnd := (pos/Sector + 1) * Sector
			if secEnd > len(buf) {
				secEnd = len(buf)
			}
			if l == 0 {
				// padding to the sector end: all remaining bytes of the sector must be zero
				for _, b := range buf[pos:secEnd] {
					if b != 0 {
						v.prob("record-fits", "directory %q: non-zero bytes after a zero length byte at +%d (a record hidden behind padding or a straddling record)", d.Path(), pos)
						break
					}
				}
				pos = secEnd
				continue
			}
			if l < 34 || pos+l > secEnd {
				v.prob("record-no-straddle", "directory %q: record at +%d of length %d crosses the sector boundary at +%d", d.Path(), pos, l, secEnd)
				if pos+l > len(buf) || l < 34 {
					break
				}
			}
			r := parseRecord(buf[pos:pos+l], int64(d.DirLBA)*Sector+int64(pos))
			d.Records = append(d.Records, r)
			if !r.NameFits {
				v.prob("record-fits", "directory %q: record at +%d: length byte %d < 33 + name length %d (+pad)", d.Path(), pos, l, int(buf[pos+32]))
			}
			if !r.BothOK {
				v.prob("both-endian", "directory %q: record at +%d has disagreeing LE/BE fields", d.Path(), pos)
			}
			pos += l
			idx := len(d.Records) - 1
			if idx < 2 {
				continue // '.' and '..' are judged by Validate
			}
			name := decodeName(r.RawName, h.Joliet)
			if r.IsDir() {
				run = nil
				c := &Entry{Name: name, RawName: r.RawName, IsDir: true, Parent: d, DirLBA: r.ExtLBA, DirLen: r.DataLen, Rec: r}
				d.Children = append(d.Children, c)
				continue
			}
			if run != nil && bytes.Equal(run.RawName, r.RawName) && run.Rec.Multi() {
				run.Extents = append(run.Extents, Extent{r.ExtLBA, r.DataLen})
				run.Size += int64(r.DataLen)
				run.Rec = r
				continue
			}
			if run != nil && run.Rec.Multi() {
				v.prob("multi-extent", "directory %q: file %q has the multi-extent flag on its last record", d.Path(), run.Name)
			}
			f := &Entry{Name: name, RawName: r.RawName, Parent: d, Extents: []Extent{{r.ExtLBA, r.DataLen}}, Size: int64(r.DataLen), Rec: r}
			d.Children = append(d.Children, f)
			h.Files = append(h.Files, f)
			run = f
		}
		if run != nil && run.Rec.Multi() {
			v.prob("multi-extent", "directory %q: file %q has the multi-extent flag on its last record", d.Path(), run.Name)
		}
		for _, c := range d.Children {
			if c.IsDir {
				if err := rec(c, depth+1); err != nil {
					return err
				}
			}
		}
		return nil
	}
	return rec(root, 0)
}

func (v *Vol) readPathTables(h *Hier) {
	size := int(h.PTSize[0])
	if size <= 0 || size > 32<<20 {
		v.prob("path-table", "path table size %d", size)
		return
	}
	for i, loc := range []uint32{h.LLoc, h.MLoc} {
		raw, err := v.read(int64(loc)*Sector, size)
		if err != nil {
			v.prob("path-table", "path table at sector %d: %v", loc, err)
			continue
		}
		var order binary.ByteOrder = binary.LittleEndian
		if i == 1 {
			order = binary.BigEndian
		}
		var ents []PTEntry
		pos := 0
		for pos < len(raw) {
			nl := int(raw[pos])
			if nl == 0 {
				v.prob("path-table", "path table at sector %d: zero name length at +%d inside the declared size %d", loc, pos, size)
				break
			}
			l := 8 + nl + nl%2
			if pos+l > len(raw) {
				v.prob("path-table", "path table at sector %d: entry at +%d overruns the declared size %d", loc, pos, size)
				break
			}
			ents = append(ents, PTEntry{ExtAttr: raw[pos+1], LBA: order.Uint32(raw[pos+2:]), Parent: order.Uint16(raw[pos+6:]), Name: append([]byte(nil), raw[pos+8:pos+8+nl]...)})
			pos += l
		}
		if i == 0 {
			h.PTL, h.PTLRaw = ents, raw
		} else {
			h.PTM, h.PTMRaw = ents, raw
		}
		// padding to the sector end is zero
		if rem := (Sector - size%Sector) % Sector; rem > 0 {
			if tail, err := v.read(int64(loc)*Sector+int64(size), rem); err == nil {
				for _, b := range tail {
					if b != 0 {
						v.prob("path-table", "path table at sector %d: non-zero padding after the declared size", loc)
						break
					}
				}
			}
		}
	}
}

// ValidateOpts selects what the caller knows.
type ValidateOpts struct {
	AnnouncedSize int64 // -1 = unknown
	SizeClauses   bool  // image length == space size (third-party images may be padded)
	PS3           bool
	TitleID       string
	// NamesDistinct: the source names of every directory are distinct after mapping (clause 15 applies)
	NamesDistinct bool
	MaxPTDirs     int // documented path table limit (65536); 0 = no limit
	// SkipGaps: do not demand zeros in sectors no structure claims (third-party writers put their own data there)
	SkipGaps bool
}

// Validate checks the C08 clauses and returns all problems found (including those of Parse).
func (v *Vol) Validate(o ValidateOpts) []Problem {
	p, j := v.Primary, v.Joliet
	if p == nil || j == nil {
		v.prob("descriptors-in-place", "primary or supplementary descriptor missing")
		return v.Problems
	}
	if !v.TermOK {
		v.prob("descriptors-in-place", "terminator missing at sector 18")
	}
	if o.SizeClauses {
		if v.Size%Sector != 0 {
			v.prob("size", "image length %d is not a multiple of 2048", v.Size)
		}
		if o.AnnouncedSize >= 0 && o.AnnouncedSize != v.Size {
			v.prob("size", "announced size %d, image length %d", o.AnnouncedSize, v.Size)
		}
		if int64(p.SpaceLE)*Sector != v.Size {
			v.prob("size", "volume space size %d sectors = %d bytes, image length %d", p.SpaceLE, int64(p.SpaceLE)*Sector, v.Size)
		}
	}
	if p.SpaceLE != j.SpaceLE {
		v.prob("size", "primary space size %d, supplementary %d", p.SpaceLE, j.SpaceLE)
	}
	for _, h := range []*Hier{p, j} {
		n := v.hname(h)
		if h.SpaceLE != h.SpaceBE || h.SetSize[0] != h.SetSize[1] || h.SeqNo[0] != h.SeqNo[1] || h.BlockSize[0] != h.BlockSize[1] || h.PTSize[0] != h.PTSize[1] || !h.RootRec.BothOK {
			v.prob("both-endian", "%s descriptor: both-endian fields disagree (space %d/%d set %v seq %v block %v ptsize %v root ok=%v)", n, h.SpaceLE, h.SpaceBE, h.SetSize, h.SeqNo, h.BlockSize, h.PTSize, h.RootRec.BothOK)
		}
		if h.BlockSize[0] != Sector {
			v.prob("both-endian", "%s descriptor: logical block size %d", n, h.BlockSize[0])
		}
		v.validateHier(h, o)
	}
	v.validateExtents(o)
	if o.PS3 {
		v.validatePS3(o)
	}
	return v.Problems
}

func (v *Vol) hname(h *Hier) string {
	if h.Joliet {
		return "joliet"
	}
	return "primary"
}

func (v *Vol) validateHier(h *Hier, o ValidateOpts) {
	n := v.hname(h)
	for _, d := range h.Dirs {
		if len(d.Records) < 2 {
			v.prob("links-consistent", "%s %q: fewer than two records", n, d.Path())
			continue
		}
		dot, dd := d.Records[0], d.Records[1]
		if !bytes.Equal(dot.RawName, []byte{0}) || !dot.IsDir() || dot.ExtLBA != d.DirLBA || dot.DataLen != d.DirLen {
			v.prob("links-consistent", "%s %q: '.' record name %x dir=%v extent %d len %d, directory is at %d len %d", n, d.Path(), dot.RawName, dot.IsDir(), dot.ExtLBA, dot.DataLen, d.DirLBA, d.DirLen)
		}
		par := d.Parent
		if par == nil {
			par = d
		}
		if !bytes.Equal(dd.RawName, []byte{1}) || !dd.IsDir() || dd.ExtLBA != par.DirLBA || dd.DataLen != par.DirLen {
			v.prob("links-consistent", "%s %q: '..' record name %x dir=%v extent %d len %d, parent is at %d len %d", n, d.Path(), dd.RawName, dd.IsDir(), dd.ExtLBA, dd.DataLen, par.DirLBA, par.DirLen)
		}
		if d.Parent == nil {
			rr := h.RootRec
			if rr.ExtLBA != dot.ExtLBA || rr.DataLen != dot.DataLen || rr.IsDir() != dot.IsDir() {
				v.prob("links-consistent", "%s: root record of the descriptor (extent %d len %d) differs from the root's '.' (extent %d len %d)", n, rr.ExtLBA, rr.DataLen, dot.ExtLBA, dot.DataLen)
			}
		}
		// child links: each sub-directory record equals the child's '.'
		for _, c := range d.Children {
			if !c.IsDir || len(c.Records) == 0 {
				continue
			}
			cd := c.Records[0]
			if c.Rec.ExtLBA != cd.ExtLBA || c.Rec.DataLen != cd.DataLen {
				v.prob("links-consistent", "%s %q: child record (extent %d len %d) differs from the child's '.' (extent %d len %d)", n, c.Path(), c.Rec.ExtLBA, c.Rec.DataLen, cd.ExtLBA, cd.DataLen)
			}
		}
		if o.NamesDistinct {
			seen := map[string]bool{}
			for _, c := range d.Children {
				k := string(c.RawName)
				if seen[k] {
					v.prob("links-consistent", "%s %q: two records with identifier %q", n, d.Path(), c.Name)
				}
				seen[k] = true
			}
		}
		for _, c := range d.Children {
			if c.IsDir || len(c.Extents) < 2 {
				continue
			}
			for i := 1; i < len(c.Extents); i++ {
				prev := c.Extents[i-1]
				if prev.Len%Sector != 0 || prev.LBA+prev.Len/Sector != c.Extents[i].LBA {
					v.prob("multi-extent", "%s %q: extents %d and %d are not consecutive", n, c.Path(), i-1, i)
				}
			}
		}
	}
	// path tables
	if len(h.PTL) != len(h.PTM) {
		v.prob("path-table", "%s: L table has %d entries, M table %d", n, len(h.PTL), len(h.PTM))
	} else {
		for i := range h.PTL {
			a, b := h.PTL[i], h.PTM[i]
			if a.LBA != b.LBA || a.Parent != b.Parent || !bytes.Equal(a.Name, b.Name) || a.ExtAttr != b.ExtAttr {
				v.prob("path-table", "%s: L and M tables differ at entry %d (%+v vs %+v)", n, i+1, a, b)
				break
			}
		}
	}
	pt := h.PTL
	if len(pt) == 0 {
		v.prob("path-table", "%s: empty path table", n)
		return
	}
	if pt[0].Parent != 1 || pt[0].LBA != h.Root.DirLBA {
		v.prob("path-table", "%s: entry 1 is not the root with parent 1 (lba %d parent %d, root at %d)", n, pt[0].LBA, pt[0].Parent, h.Root.DirLBA)
	}
	// decoded size == size field
	sz := 0
	for _, e := range pt {
		sz += 8 + len(e.Name) + len(e.Name)%2
	}
	if sz != int(h.PTSize[0]) {
		v.prob("path-table", "%s: entries occupy %d bytes, size field says %d", n, sz, h.PTSize[0])
	}
	// one entry per directory and vice versa
	byLBA := map[uint32]*Entry{}
	for _, d := range h.Dirs {
		byLBA[d.DirLBA] = d
	}
	limit := o.MaxPTDirs
	covered := map[uint32]bool{}
	for i, e := range pt {
		d := byLBA[e.LBA]
		if d == nil {
			v.prob("path-table", "%s: entry %d points at sector %d which is no directory of the hierarchy", n, i+1, e.LBA)
			continue
		}
		if covered[e.LBA] {
			v.prob("path-table", "%s: directory at sector %d has two path table entries", n, e.LBA)
		}
		covered[e.LBA] = true
		if int(e.Parent) < 1 || int(e.Parent) > len(pt) {
			v.prob("path-table", "%s: entry %d has parent number %d (table has %d entries)", n, i+1, e.Parent, len(pt))
			continue
		}
		wantParent := d.Parent
		if wantParent == nil {
			wantParent = d
		}
		if pt[e.Parent-1].LBA != wantParent.DirLBA {
			v.prob("path-table", "%s: entry %d (%q) names parent entry %d at sector %d, the parent directory is at sector %d", n, i+1, d.Path(), e.Parent, pt[e.Parent-1].LBA, wantParent.DirLBA)
		}
		if i > 0 && !bytes.Equal(e.Name, d.RawName) {
			v.prob("path-table", "%s: entry %d identifier %x differs from the directory's identifier %x", n, i+1, e.Name, d.RawName)
		}
	}
	if limit == 0 || len(h.Dirs) <= limit {
		for _, d := range h.Dirs {
			if !covered[d.DirLBA] {
				v.prob("path-table", "%s: directory %q (sector %d) has no path table entry", n, d.Path(), d.DirLBA)
				break
			}
		}
	}
}

type span struct {
	lo, hi int64 // sectors [lo, hi)
	what   string
}

func (v *Vol) validateExtents(o ValidateOpts) {
	space := int64(v.Primary.SpaceLE)
	var spans []span
	add := func(lba uint32, bytesLen int64, what string) {
		n := (bytesLen + Sector - 1) / Sector
		if int64(lba)+n > space || int64(lba) < 0 {
			v.prob("extents-inside-volume", "%s: sectors [%d,+%d) outside the volume of %d sectors", what, lba, n, space)
		}
		if n > 0 {
			spans = append(spans, span{int64(lba), int64(lba) + n, what})
		}
	}
	add(16, 3*Sector, "descriptors")
	for _, h := range []*Hier{v.Primary, v.Joliet} {
		n := v.hname(h)
		add(h.LLoc, int64(h.PTSize[0]), n+" L path table")
		add(h.MLoc, int64(h.PTSize[0]), n+" M path table")
		for _, d := range h.Dirs {
			add(d.DirLBA, int64(d.DirLen), n+" directory "+d.Path())
		}
	}
	// file extents: both hierarchies name the same extents; take them from the primary one and
	// demand that the Joliet one agrees extent by extent (same data, two names)
	type fkey struct {
		lba uint32
		ln  uint32
	}
	prim := map[fkey]bool{}
	for _, f := range v.Primary.Files {
		for _, e := range f.Extents {
			if e.Len == 0 {
				continue
			}
			if prim[fkey{e.LBA, e.Len}] {
				v.prob("extents-disjoint", "primary: extent at sector %d named by two file records (%q)", e.LBA, f.Path())
			}
			prim[fkey{e.LBA, e.Len}] = true
			add(e.LBA, int64(e.Len), "file "+f.Path())
		}
	}
	jol := map[fkey]bool{}
	for _, f := range v.Joliet.Files {
		for _, e := range f.Extents {
			if e.Len == 0 {
				continue
			}
			if jol[fkey{e.LBA, e.Len}] {
				v.prob("extents-disjoint", "joliet: extent at sector %d named by two file records (%q)", e.LBA, f.Path())
			}
			jol[fkey{e.LBA, e.Len}] = true
			if !prim[fkey{e.LBA, e.Len}] {
				add(e.LBA, int64(e.Len), "joliet-only file "+f.Path())
			}
		}
	}
	sort.Slice(spans, func(i, j int) bool { return spans[i].lo < spans[j].lo })
	for i := 1; i < len(spans); i++ {
		if spans[i].lo < spans[i-1].hi {
			v.prob("extents-disjoint", "%s [%d,%d) overlaps %s [%d,%d)", spans[i-1].what, spans[i-1].lo, spans[i-1].hi, spans[i].what, spans[i].lo, spans[i].hi)
			if i > 50 {
				break
			}
		}
	}
	// padding: bytes between a file's end and its sector end are zero
	for _, f := range v.Primary.Files {
		for _, e := range f.Extents {
			if rem := int(e.Len % Sector); rem != 0 {
				off := int64(e.LBA)*Sector + int64(e.Len)
				tail, err := v.read(off, Sector-rem)
				if err != nil {
					continue
				}
				for _, b := range tail {
					if b != 0 {
						v.prob("padding-zero", "non-zero byte in the sector tail after file %q", f.Path())
						break
					}
				}
			}
		}
	}
	// everything after the last used sector (and gaps between spans after sector 19) is zero
	var last int64 = 19
	var zeroRange func(lo, hi int64, what string)
	zeroRange = func(lo, hi int64, what string) {
		if hi > space {
			hi = space
		}
		if hi-lo > 4096 { // never the case for this generator; sample the borders
			zeroRange(lo, lo+64, what)
			zeroRange(hi-64, hi, what)
			return
		}
		for s := lo; s < hi; s++ {
			b, err := v.read(s*Sector, Sector)
			if err != nil {
				return
			}
			for _, x := range b {
				if x != 0 {
					v.prob("padding-zero", "non-zero byte in %s sector %d", what, s)
					return
				}
			}
		}
	}
	for _, s := range spans {
		if s.lo > last && !o.SkipGaps {
			zeroRange(last, s.lo, "unused (gap)")
		}
		if s.hi > last {
			last = s.hi
		}
	}
	if last < space {
		zeroRange(last, space, "trailing pad")
	}
}

func (v *Vol) validatePS3(o ValidateOpts) {
	s0, err := v.read(0, 2*Sector)
	if err != nil {
		return
	}
	space := v.Primary.SpaceLE
	if binary.BigEndian.Uint32(s0[0:4]) != 1 || binary.BigEndian.Uint32(s0[4:8]) != 0 || binary.BigEndian.Uint32(s0[8:12]) != 0 || binary.BigEndian.Uint32(s0[12:16]) != space-1 {
		v.prob("ps3-sectors", "sector 0 is not 'one plain region [0, %d]': %x", space-1, s0[:16])
	}
	s1 := s0[Sector:]
	if string(s1[:16]) != "PlayStation3    " {
		v.prob("ps3-sectors", "sector 1 does not start with PlayStation3 padded to 16: %q", s1[:16])
	}
	if o.TitleID != "" && len(o.TitleID) >= 4 {
		want := o.TitleID[:4] + "-" + o.TitleID[4:]
		for len(want) < 32 {
			want += " "
		}
		if string(s1[16:48]) != want {
			v.prob("ps3-sectors", "sector 1 product code %q, want %q", s1[16:48], want)
		}
	}
}

// FileMap returns path -> entry for the files of a hierarchy (duplicates reported).
func (h *Hier) FileMap() (map[string]*Entry, []string) {
	m := map[string]*Entry{}
	var dup []string
	for _, f := range h.Files {
		p := f.Path()
		if _, ok := m[p]; ok {
			dup = append(dup, p)
		}
		m[p] = f
	}
	return m, dup
}

// DirPaths returns the set of directory paths (root = "").
func (h *Hier) DirPaths() (map[string]bool, []string) {
	m := map[string]bool{}
	var dup []string
	for _, d := range h.Dirs {
		p := d.Path()
		if m[p] {
			dup = append(dup, p)
		}
		m[p] = true
	}
	return m, dup
}

// ReadFile reads bytes [off, off+n) of a file through its extents.
func (v *Vol) ReadFile(f *Entry, off int64, n int) ([]byte, error) {
	out := make([]byte, 0, n)
	var base int64
	for _, e := range f.Extents {
		el := int64(e.Len)
		if off < base+el && n > 0 {
			s := off - base
			if s < 0 {
				s = 0
			}
			take := el - s
			if take > int64(n) {
				take = int64(n)
			}
			b, err := v.read(int64(e.LBA)*Sector+s, int(take))
			if err != nil {
				return nil, err
			}
			out = append(out, b...)
			n -= int(take)
			off += take
		}
		base += el
	}
	return out, nil
}
