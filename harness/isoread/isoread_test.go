package isoread

import (
	"bytes"
	"os"
	"testing"
)

// The reader and validator are anchored on a third-party image.
func TestAnchorImage(t *testing.T) {
	data, err := os.ReadFile("/repo/internal/testutil/testdata/testimg.iso")
	if err != nil {
		t.Skip(err)
	}
	v, err := Parse(bytes.NewReader(data), int64(len(data)))
	if err != nil {
		t.Fatal(err)
	}
	probs := v.Validate(ValidateOpts{AnnouncedSize: -1, SizeClauses: false, NamesDistinct: true})
	for _, p := range probs {
		t.Errorf("problem: %v", p)
	}
	for _, h := range []*Hier{v.Primary, v.Joliet} {
		t.Logf("hier joliet=%v dirs=%d files=%d", h.Joliet, len(h.Dirs), len(h.Files))
		for _, f := range h.Files {
			t.Logf("  %q size=%d extents=%v", f.Path(), f.Size, f.Extents)
		}
		for _, d := range h.Dirs {
			t.Logf("  dir %q", d.Path())
		}
	}
}
