package props

import (
	"bytes"
	"fmt"
	"io"
	"os"
	"os/exec"
	"path/filepath"
	"strings"
	"testing"

	"github.com/spf13/afero"
	"pgregory.net/rapid"

	pfs "github.com/xakep666/ps3netsrv-go/pkg/fs"
	"github.com/xakep666/ps3netsrv-go/verif/hx"
	"github.com/xakep666/ps3netsrv-go/verif/isoread"
)

// ---- C07 / C08: generated image = source tree; structurally valid -----------------

type isoCase struct {
	Tree     *hx.Node    `json:"tree"`
	PS3      bool        `json:"ps3"`
	TitleID  string      `json:"title_id,omitempty"`
	SFOExtra [][2]string `json:"sfo_extra,omitempty"`
	PermSeed uint64      `json:"perm_seed"`
	Route    string      `json:"route"`               // lib | net | makeiso | synth
	RootName string      `json:"root_name,omitempty"` // name of the directory the image is made of (volume name in plain mode)
	// Chunk > 0 (routes lib and net): after the sequential read the files are read a second time through the same open
	// image the way a reader of the volume does it - piece by piece, the files taking turns
	Chunk int `json:"chunk,omitempty"`
}

func (c isoCase) rootName() string {
	if c.RootName == "" {
		return "t"
	}
	return c.RootName
}

func genRootName(t *rapid.T) string {
	switch rapid.IntRange(0, 7).Draw(t, "rootname-class") {
	case 0:
		return hx.GenName(t, "portable", "rootname")
	case 1:
		n := rapid.SampledFrom([]int{16, 17, 32, 33, 64, 65, 128, 129, 200, 255}).Draw(t, "rootname-len")
		return strings.Repeat("G", n)
	case 2:
		return hx.GenName(t, "nonascii", "rootname")
	case 3:
		return hx.GenName(t, "spaces", "rootname")
	}
	return "t"
}

func (c isoCase) tree() *hx.Node {
	if c.PS3 {
		return withPS3(c.Tree, c.TitleID, c.SFOExtra)
	}
	return c.Tree
}

func genTitleID(t *rapid.T) string {
	return rapid.StringMatching(`[A-Z]{4}[0-9]{5}`).Draw(t, "title_id")
}

func genSFOExtra(t *rapid.T) [][2]string {
	keys := []string{"APP_VER", "CATEGORY", "BOOTABLE", "LICENSE", "PS3_SYSTEM_VER", "TITLE", "VERSION", "ATTRIBUTE", "PARENTAL_LEVEL", "RESOLUTION", "SOUND_FORMAT", "ZZZ_LAST"}
	n := rapid.IntRange(0, 8).Draw(t, "sfo-n")
	perm := rapid.Permutation(keys).Draw(t, "sfo-keys")
	var out [][2]string
	for i := 0; i < n; i++ {
		out = append(out, [2]string{perm[i], rapid.StringMatching(`[ -~]{0,20}`).Draw(t, fmt.Sprintf("sfo-v%d", i))})
	}
	return out
}

// addWide adds a directory with many small entries (records exceed one sector).
func addWide(t *rapid.T, tree *hx.Node, classes []string) {
	k := rapid.SampledFrom([]int{30, 41, 60, 61, 62, 100, 200, 300}).Draw(t, "wide-n")
	var dirs []*hx.Node
	tree.Walk(func(_ string, n *hx.Node) {
		if n.Kind == "dir" {
			dirs = append(dirs, n)
		}
	})
	d := dirs[rapid.IntRange(0, len(dirs)-1).Draw(t, "wide-dir")]
	have := map[string]bool{}
	for _, c := range d.Children {
		have[strings.ToUpper(c.Name)] = true
	}
	subdirs := rapid.IntRange(0, 4).Draw(t, "wide-subdirs")
	for i := 0; i < k; i++ {
		name := fmt.Sprintf("W%03d.DAT", i)
		if len(classes) > 0 && i%7 == 3 {
			name = fmt.Sprintf("w%03d_%s", i, strings.Repeat("n", rapid.IntRange(1, 40).Draw(t, fmt.Sprintf("wide-l%d", i))))
		}
		if have[strings.ToUpper(name)] {
			continue
		}
		if i < subdirs {
			d.Children = append(d.Children, hx.Dir(fmt.Sprintf("WD%02d", i)))
			continue
		}
		d.Children = append(d.Children, hx.File(name, int64(i%4), uint64(9000+i)))
	}
}

// addFitted adds a directory whose records, all of one size, fill the first sector of its extent exactly in one of the
// two hierarchies ('.' and '..' take 68 bytes, so sizes dividing 1980), and whose count is at or next to the number that
// fills k sectors: the boundary cases of "a record never crosses a sector" and of the extent-size arithmetic.
func addFitted(t *rapid.T, tree *hx.Node) {
	type fit struct{ rec, nameLen int }
	var fits []fit
	joliet := rapid.Bool().Draw(t, "fit-joliet")
	for _, r := range []int{36, 44, 60, 66, 90, 110, 132, 180, 198, 220} {
		if joliet {
			if l := (r - 34) / 2; l >= 3 && l <= 100 {
				fits = append(fits, fit{r, l}) // 33 + 2l + 1 pad
			}
		} else if r-33 <= 100 { // the same names must fit a Joliet record (34 + 2 per character <= 255)
			fits = append(fits, fit{r, r - 33}) // odd name length, no pad
			if r > 36 {
				fits = append(fits, fit{r, r - 34}) // even name length, one pad byte
			}
		}
	}
	f := fits[rapid.IntRange(0, len(fits)-1).Draw(t, "fit-size")]
	n := 1980 / f.rec
	for k := rapid.IntRange(1, 3).Draw(t, "fit-sectors"); k > 1; k-- {
		n += 2048 / f.rec
	}
	n += rapid.IntRange(-1, 1).Draw(t, "fit-delta")
	var dirs []*hx.Node
	tree.Walk(func(_ string, nd *hx.Node) {
		if nd.Kind == "dir" {
			dirs = append(dirs, nd)
		}
	})
	parent := dirs[rapid.IntRange(0, len(dirs)-1).Draw(t, "fit-parent")]
	for _, c := range parent.Children {
		if strings.EqualFold(c.Name, "FIT") {
			return
		}
	}
	d := hx.Dir("FIT")
	subdirs := rapid.IntRange(0, 3).Draw(t, "fit-subdirs")
	for i := 0; i < n; i++ {
		num := fmt.Sprintf("%03d", i)
		name := (strings.Repeat("N", f.nameLen) + num)[len(num):]
		if f.nameLen < 3 {
			name = num[3-f.nameLen:]
			if i >= 100 {
				name = string(rune('A'+i/10-10)) + num[2:]
			}
		}
		if i%9 < subdirs && i%9 == i/9 {
			d.Children = append(d.Children, hx.Dir(name))
		} else {
			d.Children = append(d.Children, hx.File(name, int64(i%3), uint64(7000+i)))
		}
	}
	parent.Children = append(parent.Children, d)
}

// addFittedPathTable adds directories whose path-table records (root 10 bytes; primary 8 + name + pad, Joliet 8 + 2 per
// character) fill k sectors exactly - or miss that by one record size - in one of the two hierarchies: the boundary of
// every "sectors taken by the table" computation.  ps3: the PS3_GAME directory of PS3 mode is accounted for.
func addFittedPathTable(t *rapid.T, tree *hx.Node, ps3 bool) {
	joliet := rapid.Bool().Draw(t, "ptfit-joliet")
	k := rapid.IntRange(1, 2).Draw(t, "ptfit-sectors")
	rec := func(n int) int {
		if joliet {
			return 8 + 2*n
		}
		return 8 + n + n%2
	}
	used := 10
	var names []string
	tree.Walk(func(rel string, n *hx.Node) {
		if n.Kind == "dir" && rel != "" {
			used += rec(len([]rune(n.Name)))
		}
	})
	if ps3 {
		used += rec(8)
	}
	target := 2048*k + rapid.SampledFrom([]int{0, 0, 0, -2, 2, -16}).Draw(t, "ptfit-delta")
	i := 0
	for target-used >= rec(8)+rec(1) {
		names = append(names, fmt.Sprintf("P%07d", i))
		used += rec(8)
		i++
	}
	if r := target - used; r >= rec(1) {
		// one last record takes what is left (sizes are even in both hierarchies)
		n := r - 8
		if joliet {
			n = (r - 8) / 2
		}
		if n >= 1 && n <= 40 {
			names = append(names, ("Q" + strings.Repeat("z", 40))[:n])
		}
	}
	// flat, or hanging below each other in short chains (the nesting does not change a table's size)
	chain := rapid.SampledFrom([]int{1, 1, 3, 7}).Draw(t, "ptfit-chain")
	var parent *hx.Node
	for j, nm := range names {
		d := hx.Dir(nm)
		if j%chain == 0 || parent == nil {
			tree.Children = append(tree.Children, d)
		} else {
			parent.Children = append(parent.Children, d)
		}
		parent = d
	}
	if parent != nil {
		parent.Children = append(parent.Children, hx.File("LEAF.BIN", 3000, 4242))
	}
}

func genC07(t *rapid.T) isoCase {
	shape := rapid.IntRange(0, 9).Draw(t, "shape")
	o := hx.TreeOpts{MaxDepth: 3, MaxEntries: 6, MaxTotal: 40, MaxFile: 150000, EmptyBias: true, MTimes: true}
	switch shape {
	case 0:
		o.MaxDepth, o.MaxEntries, o.MaxTotal = 8, 3, 40 // deep
	case 1:
		o.MaxDepth, o.MaxEntries, o.MaxTotal = 0, 12, 12 // flat
	case 2:
		o.MaxEntries, o.MaxTotal = 0, 0 // empty root
	}
	tree := hx.GenTree(t, o)
	if shape == 3 || shape == 4 {
		addWide(t, tree, nil)
	}
	if shape == 5 {
		addFitted(t, tree)
	}
	c := isoCase{Tree: tree, PS3: rapid.IntRange(0, 2).Draw(t, "ps3") == 0, PermSeed: rapid.Uint64().Draw(t, "perm"),
		Route: rapid.SampledFrom([]string{"lib", "lib", "lib", "net", "makeiso"}).Draw(t, "route")}
	if shape == 6 {
		addFittedPathTable(t, tree, c.PS3)
	}
	if c.PS3 {
		c.TitleID = genTitleID(t)
	}
	c.RootName = genRootName(t)
	if c.Route != "makeiso" {
		c.Chunk = rapid.SampledFrom([]int{0, 0, 1, 700, 2048, 3000, 65536}).Draw(t, "chunk")
	}
	return c
}

// interleavedPass reads every file of the volume in pieces of chunk bytes through readAt, the files taking turns (one
// piece of each per round), and compares each piece with the same range of img (which compareTree ties to the source).
func interleavedPass(vol *isoread.Vol, img []byte, chunk int, readAt func(off int64, n int) ([]byte, error), st *hx.Stats) error {
	type cursor struct{ start, pos, end int64 }
	var cs []*cursor
	for _, f := range vol.Primary.Files {
		for _, e := range f.Extents {
			if e.Len > 0 {
				s := int64(e.LBA) * 2048
				cs = append(cs, &cursor{s, s, s + int64(e.Len)})
			}
		}
	}
	if len(cs) > 64 {
		cs = cs[:64]
	}
	if len(cs) >= 2 {
		st.Label("files read piece by piece, taking turns")
	}
	pieces := 0
	for live := true; live && pieces < 4096; {
		live = false
		for _, c := range cs {
			if c.pos >= c.end {
				continue
			}
			live = true
			n := int64(chunk)
			if n > c.end-c.pos {
				n = c.end - c.pos
			}
			if c.pos+n > int64(len(img)) {
				return nil
			}
			b, err := readAt(c.pos, int(n))
			if ie, ok := err.(infraErr); ok {
				return ie.error
			}
			if err != nil {
				return hx.Failf("iso-file-bytes", "file at image offset %d read in pieces of %d (files taking turns): piece at +%d failed: %v", c.start, chunk, c.pos-c.start, err)
			}
			if !bytes.Equal(b, img[c.pos:c.pos+n]) {
				return hx.Failf("iso-file-bytes", "file at image offset %d read in pieces of %d (files taking turns): the piece at +%d differs from the same bytes read sequentially", c.start, chunk, c.pos-c.start)
			}
			c.pos += n
			pieces++
		}
	}
	return nil
}

// infraErr marks an error of the harness's own transport (never judged as a violation)
type infraErr struct{ error }

type decoded struct {
	vol       *isoread.Vol
	size      int64
	announced int64
	cleanup   func()
	img       []byte // whole image (lib route)
}

// buildAndDecode produces the image by the case's route and decodes it with the independent reader.
// A nil *decoded with nil error means "image creation failed" (an error return, which C08 accepts).
func buildAndDecode(c isoCase, st *hx.Stats) (*decoded, error) {
	tree := c.tree()
	if c.Route == "synth" {
		sfs := hx.NewSynthFs(hx.Dir("", &hx.Node{Name: c.rootName(), Kind: "dir", Children: tree.Children}))
		var base afero.Fs = sfs
		if c.PermSeed != 0 {
			base = &hx.PermFs{Fs: sfs, Seed: c.PermSeed}
		}
		viso, err := pfs.NewVirtualISO(base, "/"+c.rootName(), c.PS3)
		if err != nil {
			return nil, hx.Failf("image-creation", "NewVirtualISO failed: %v", err)
		}
		s, _ := viso.Stat()
		v, err := isoread.Parse(viso, s.Size())
		if err != nil {
			viso.Close()
			return nil, hx.Failf("image-parse", "independent reader cannot parse the image: %v", err)
		}
		return &decoded{vol: v, size: s.Size(), announced: s.Size(), cleanup: func() { viso.Close() }}, nil
	}
	fx, err := newIsoFixtureNamed(tree, c.rootName())
	if err != nil {
		return nil, err
	}
	switch c.Route {
	case "lib":
		var base afero.Fs = fx.Fs
		if c.PermSeed != 0 {
			base = &hx.PermFs{Fs: fx.Fs, Seed: c.PermSeed}
		}
		viso, err := pfs.NewVirtualISO(base, fx.Root, c.PS3)
		if err != nil {
			fx.Close()
			return nil, nil
		}
		defer viso.Close()
		s, _ := viso.Stat()
		img, err := readAllAligned(viso, 64*1024, 512<<20)
		if err != nil {
			fx.Close()
			return nil, hx.Failf("sequential-read", "sequential read of the image failed at %d: %v", len(img), err)
		}
		v, perr := isoread.Parse(bytes.NewReader(img), int64(len(img)))
		if perr != nil && v == nil {
			fx.Close()
			return nil, hx.Failf("image-parse", "independent reader cannot parse the image: %v", perr)
		}
		if perr != nil {
			v.Problems = append(v.Problems, isoread.Problem{Clause: "image-parse", Msg: perr.Error()})
		}
		if c.Chunk > 0 {
			if err := interleavedPass(v, img, c.Chunk, func(off int64, n int) ([]byte, error) {
				b := make([]byte, n)
				k, err := viso.ReadAt(b, off)
				if k == n {
					err = nil
				} else if err == nil {
					err = fmt.Errorf("ReadAt returned %d of %d bytes without an error", k, n)
				}
				return b, err
			}, st); err != nil {
				fx.Close()
				return nil, err
			}
		}
		return &decoded{vol: v, size: int64(len(img)), announced: s.Size(), cleanup: fx.Close, img: img}, nil
	case "net":
		tg, err := hx.StartInproc(fx.Tmp, hx.InprocOpts{})
		if err != nil {
			fx.Close()
			return nil, err
		}
		defer tg.Close()
		conn, err := hx.Dial(tg.Addr)
		if err != nil {
			fx.Close()
			return nil, err
		}
		defer conn.Close()
		prefix := "/***DVD***"
		if c.PS3 {
			prefix = "/***PS3***"
		}
		if err := conn.Send(hx.Req{Op: "OPEN_FILE", Path: hx.BStr(prefix + "/" + c.rootName())}.Encode()); err != nil {
			fx.Close()
			return nil, err
		}
		rep, closed, err := conn.ReadN(16)
		if err != nil || closed {
			fx.Close()
			return nil, hx.Failf("reply-layout", "OPEN_FILE of the image: closed=%v err=%v", closed, err)
		}
		size := int64(uint64(rep[0])<<56 | uint64(rep[1])<<48 | uint64(rep[2])<<40 | uint64(rep[3])<<32 | uint64(rep[4])<<24 | uint64(rep[5])<<16 | uint64(rep[6])<<8 | uint64(rep[7]))
		if size < 0 {
			fx.Close()
			return nil, nil
		}
		if size > 512<<20 {
			fx.Close()
			return nil, fmt.Errorf("image too large for the net route: %d", size)
		}
		img := make([]byte, 0, size)
		for off := int64(0); off < size; {
			n := int64(1 << 20)
			if n > size-off {
				n = size - off
			}
			if err := conn.Send(hx.Req{Op: "READ_CRIT", N: uint32(n), Off: uint64(off)}.Encode()); err != nil {
				fx.Close()
				return nil, hx.Failf("transport", "send: %v", err)
			}
			b, closed, err := conn.ReadN(int(n))
			if err != nil || closed {
				fx.Close()
				return nil, hx.Failf("read-bytes", "critical read of image [%d,+%d) ended early: got %d closed=%v err=%v", off, n, len(b), closed, err)
			}
			img = append(img, b...)
			off += n
		}
		v, perr := isoread.Parse(bytes.NewReader(img), int64(len(img)))
		if perr != nil && v == nil {
			fx.Close()
			return nil, hx.Failf("image-parse", "independent reader cannot parse the image: %v", perr)
		}
		if perr != nil {
			v.Problems = append(v.Problems, isoread.Problem{Clause: "image-parse", Msg: perr.Error()})
		}
		if c.Chunk > 0 {
			if err := interleavedPass(v, img, c.Chunk, func(off int64, n int) ([]byte, error) {
				if err := conn.Send(hx.Req{Op: "READ_CRIT", N: uint32(n), Off: uint64(off)}.Encode()); err != nil {
					return nil, infraErr{err}
				}
				b, closed, err := conn.ReadN(n)
				if err == nil && closed {
					err = fmt.Errorf("connection ended after %d of %d bytes", len(b), n)
				}
				return b, err
			}, st); err != nil {
				fx.Close()
				return nil, err
			}
		}
		return &decoded{vol: v, size: int64(len(img)), announced: size, cleanup: fx.Close}, nil
	case "makeiso":
		out := filepath.Join(fx.Tmp, "out.iso")
		args := []string{"make-iso"}
		if c.PS3 {
			args = append(args, "--ps3-mode")
		}
		args = append(args, filepath.Join(fx.Tmp, c.rootName()), out)
		cmd := exec.Command(hx.BinPath(), args...)
		cmd.Env = []string{"PATH=/usr/bin:/bin", "HOME=/nonexistent-home"}
		cmd.Dir = fx.Tmp
		ob, err := combinedOutputBounded(cmd)
		if f, ok := err.(*hx.Fail); ok {
			return nil, f
		}
		if err != nil {
			if strings.Contains(string(ob), "panic:") || strings.Contains(string(ob), "goroutine ") {
				fx.Close()
				return nil, hx.Failf("no-panic", "make-iso crashed: %s", head(string(ob), 1500))
			}
			fx.Close()
			return nil, nil
		}
		f, err := os.Open(out)
		if err != nil {
			fx.Close()
			return nil, hx.Failf("makeiso-output", "make-iso exited 0 but wrote no file: %v", err)
		}
		s, _ := f.Stat()
		v, perr := isoread.Parse(f, s.Size())
		if perr != nil && v == nil {
			f.Close()
			fx.Close()
			return nil, hx.Failf("image-parse", "independent reader cannot parse the make-iso image: %v", perr)
		}
		if perr != nil {
			v.Problems = append(v.Problems, isoread.Problem{Clause: "image-parse", Msg: perr.Error()})
		}
		return &decoded{vol: v, size: s.Size(), announced: -1, cleanup: func() { f.Close(); fx.Close() }}, nil
	}
	fx.Close()
	return nil, fmt.Errorf("bad route %q", c.Route)
}

func head(s string, n int) string {
	if len(s) > n {
		return s[:n]
	}
	return s
}

func treeStats(tree *hx.Node) (files, dirs, maxEntries int, hasEmptyAdj, hasUnaligned, hasBig bool) {
	tree.Walk(func(_ string, n *hx.Node) {
		switch n.Kind {
		case "file":
			files++
			if n.Size%2048 != 0 {
				hasUnaligned = true
			}
			if n.Size > 1<<32 {
				hasBig = true
			}
		case "dir":
			dirs++
			if len(n.Children) > maxEntries {
				maxEntries = len(n.Children)
			}
			for i, c := range n.Children {
				if c.Kind == "file" && c.Size == 0 {
					for _, j := range []int{i - 1, i + 1} {
						if j >= 0 && j < len(n.Children) && n.Children[j].Kind == "file" && n.Children[j].Size > 0 {
							hasEmptyAdj = true
						}
					}
				}
			}
		}
	})
	return
}

func runC07(c isoCase, st *hx.Stats) error {
	files, dirs, maxEnt, emptyAdj, unaligned, big := treeStats(c.Tree)
	var ls []string
	if emptyAdj {
		ls = append(ls, "empty file adjacent to a non-empty one")
	}
	if unaligned {
		ls = append(ls, "file size not a multiple of 2048")
	}
	if maxEnt > 40 {
		ls = append(ls, "directory with > 40 entries")
	}
	if big {
		ls = append(ls, "file > 4 GiB")
	}
	st.Label(ls...)
	st.Label("route="+c.Route, fmt.Sprintf("ps3=%v", c.PS3))
	if len(ls) > 0 {
		st.NT(fmt.Sprintf("%s|%v|%d|%s", c.Route, c.PS3, c.PermSeed, treeKey(c.Tree)))
	}
	st.Sample(map[string]any{"route": c.Route, "ps3": c.PS3, "files": files, "dirs": dirs, "max_entries": maxEnt, "classes": ls})
	var total int64
	c.Tree.Walk(func(_ string, n *hx.Node) {
		if n.Kind == "file" {
			total += n.Size
		}
	})
	// an image addresses its sectors with 32 bits (the implementation with 31): a tree near or beyond 4 TiB cannot be
	// represented, and refusing it is then the correct outcome - a produced image must still be right
	tooLarge := total > 1<<42-1<<36
	if total > 1<<40 {
		st.Label("tree > 1 TiB")
	}
	d, err := buildAndDecode(c, st)
	if tooLarge {
		if f, ok := err.(*hx.Fail); ok && f.Clause == "image-creation" {
			st.Label("tree too large for an image: refused")
			return nil
		}
		if err == nil && d == nil {
			st.Label("tree too large for an image: refused")
			return nil
		}
	}
	if err != nil {
		return err
	}
	if d == nil {
		return hx.Failf("image-creation", "image creation failed for a tree of portable, distinct names (route %s)", c.Route)
	}
	defer d.cleanup()
	labelPathTableFit(d.vol, st)
	if err := compareTree(d.vol, c.tree(), 64<<20); err != nil {
		return err
	}
	if c.PS3 {
		// libarchive guesses the format from the first bytes: the PS3 system area (sector range table in sector 0)
		// makes it try LZMA and give up, which says nothing about the ISO 9660 volume
		return nil
	}
	return bsdtarAgrees(d.img, c.tree(), st)
}

// bsdtarAgrees: a second, unrelated reader (libarchive, when installed) must list exactly the source tree.
func bsdtarAgrees(img []byte, tree *hx.Node, st *hx.Stats) error {
	bin, err := exec.LookPath("bsdtar")
	for _, cand := range []string{"/usr/bin/bsdtar", "/usr/local/bin/bsdtar", "/root/miniconda/bin/bsdtar", "/opt/conda/bin/bsdtar"} {
		if err == nil {
			break
		}
		if _, serr := os.Stat(cand); serr == nil {
			bin, err = cand, nil
		}
	}
	if err != nil || img == nil || len(img) > 48<<20 {
		return nil
	}
	f, err := os.CreateTemp(os.Getenv("VERIF_SCRATCH"), "bsdtar*.iso")
	if err != nil {
		return nil
	}
	defer os.Remove(f.Name())
	if _, err := f.Write(img); err != nil {
		f.Close()
		return nil
	}
	f.Close()
	cmd := exec.Command(bin, "-tf", f.Name())
	cmd.Env = []string{"LC_ALL=C.UTF-8", "PATH=/usr/bin:/bin"}
	out, err := cmd.Output()
	if err != nil {
		msg := ""
		if ee, ok := err.(*exec.ExitError); ok {
			msg = head(string(ee.Stderr), 300)
		}
		return hx.Failf("second-reader", "bsdtar cannot read the image: %v %s", err, msg)
	}
	got := map[string]bool{}
	for _, l := range strings.Split(strings.TrimRight(string(out), "\n"), "\n") {
		l = strings.TrimSuffix(l, "/")
		if l != "" && l != "." {
			got[l] = true
		}
	}
	want := map[string]bool{}
	tree.Walk(func(rel string, n *hx.Node) {
		if rel != "" && (n.Kind == "dir" || n.Kind == "file") {
			want[rel] = true
		}
	})
	for p := range want {
		if !got[p] {
			return hx.Failf("second-reader", "bsdtar does not list %q of the source tree (it lists %d entries, the tree has %d)", p, len(got), len(want))
		}
	}
	for p := range got {
		if !want[p] {
			return hx.Failf("second-reader", "bsdtar lists %q which the source tree has not", p)
		}
	}
	st.Label("listing confirmed by bsdtar")
	return nil
}

func treeKey(tree *hx.Node) string {
	var sb strings.Builder
	tree.Walk(func(rel string, n *hx.Node) {
		fmt.Fprintf(&sb, "%s:%s:%d;", rel, n.Kind[:1], n.Size)
	})
	s := sb.String()
	if len(s) > 600 {
		s = fmt.Sprintf("%s#%d", s[:600], len(s))
	}
	return s
}

func TestC07Trees(t *testing.T) {
	st := hx.NewStats("C07", "trees")
	hx.RunProp(t, st, genC07, runC07, hx.PropOpts{WriteAhead: true})
}

// giant files through the synthetic filesystem
func genC07Giant(t *rapid.T) isoCase {
	root := hx.Dir("")
	nsmall := rapid.IntRange(0, 3).Draw(t, "nsmall")
	for i := 0; i < nsmall; i++ {
		root.Children = append(root.Children, hx.File(fmt.Sprintf("S%d.BIN", i), hx.GenSize(t, fmt.Sprintf("s%d", i), 100000), uint64(70+i)))
	}
	ng := rapid.IntRange(1, 2).Draw(t, "ngiant")
	for i := 0; i < ng; i++ {
		sz := rapid.SampledFrom([]int64{1<<32 - 2048, 1<<32 - 1, 1 << 32, 1<<32 + 1, 0xFFFFF800, 0xFFFFF800 + 1, 2 * 0xFFFFF800, 2*0xFFFFF800 + 5, 5<<30 + 123, 9 << 30}).Draw(t, fmt.Sprintf("g%d", i))
		g := &hx.Node{Name: fmt.Sprintf("GIANT%d.BIN", i), Kind: "file", Size: sz, Seed: uint64(900 + i), Sparse: true}
		pos := rapid.IntRange(0, len(root.Children)).Draw(t, fmt.Sprintf("gpos%d", i))
		root.Children = append(root.Children[:pos], append([]*hx.Node{g}, root.Children[pos:]...)...)
	}
	if rapid.Bool().Draw(t, "subdir") {
		root.Children = append(root.Children, hx.Dir("SUB", hx.File("TAIL.BIN", 3000, 5)))
	}
	// terabytes (sparse files make them cheap on real disks too): around 2^31 and 2^32 sectors, where the image's
	// 32-bit sector numbers end. Beyond that an error is the right answer (runC07), never a wrong image or a crash.
	if rapid.IntRange(0, 2).Draw(t, "tera") == 0 {
		for i, nt := 0, rapid.IntRange(1, 3).Draw(t, "ntera"); i < nt; i++ {
			sz := rapid.SampledFrom([]int64{1 << 40, 1<<41 + 7, 3 << 39, 1<<42 - 1<<37, 1<<42 - 4096, 1 << 42, 1<<42 + 2048, 5 << 40, 1<<43 - 2048, 1 << 43, 9 << 40, 17 << 40, 1 << 50}).Draw(t, fmt.Sprintf("t%d", i))
			root.Children = append(root.Children, &hx.Node{Name: fmt.Sprintf("TERA%d.BIN", i), Kind: "file", Size: sz, Seed: uint64(950 + i), Sparse: true})
		}
	}
	c := isoCase{Tree: root, PS3: rapid.IntRange(0, 3).Draw(t, "ps3") == 0, PermSeed: rapid.Uint64().Draw(t, "perm"), Route: "synth"}
	if c.PS3 {
		c.TitleID = genTitleID(t)
	}
	return c
}

func TestC07Giant(t *testing.T) {
	st := hx.NewStats("C07", "giant")
	hx.RunProp(t, st, genC07Giant, runC07, hx.PropOpts{})
}

var _ = io.EOF
