package props

import (
	"bytes"
	"context"
	"encoding/binary"
	"fmt"
	"io"
	"net"
	"os"
	"syscall"
	"testing"
	"time"

	"pgregory.net/rapid"

	"github.com/xakep666/ps3netsrv-go/verif/hx"
)

// ---- C03 pipelined-close: the answer to an earlier valid request survives the end of the connection -----------------
//
// "Malformed, truncated or unknown requests only ever end that connection" - they do not take back what was answered
// before. A client that pipelines [OPEN_FILE, READ_FILE(n), <bad request> + trailing bytes] and reads slowly (small
// receive buffer) must still receive the whole, correct answer to READ_FILE before the end of the stream. A server
// that closes its socket while request bytes are still unread makes the system reset the connection and throw away
// the part of the answer that waits in its send queue.

type c03PipeCase struct {
	N       int    `json:"n"`        // bytes asked for by the valid READ_FILE
	Off     int    `json:"off"`      // its offset
	Bad     string `json:"bad"`      // unknown | truncated-path | oversized-write
	Extra   int    `json:"extra"`    // bytes following the bad request
	RcvBuf  int    `json:"rcvbuf"`   // client's receive buffer
	SleepMS int    `json:"sleep_ms"` // time the client waits before it starts reading
}

const c03PipeFileSize = 3 << 20

func genC03Pipe(t *rapid.T) c03PipeCase {
	return c03PipeCase{
		N:       rapid.SampledFrom([]int{1, 2048, 65536, 200000, 1 << 20, 2 << 20, 3 << 20}).Draw(t, "n"),
		Off:     rapid.SampledFrom([]int{0, 1, 4097}).Draw(t, "off"),
		Bad:     rapid.SampledFrom([]string{"unknown", "unknown", "truncated-path", "oversized-write"}).Draw(t, "bad"),
		Extra:   rapid.SampledFrom([]int{0, 1, 16, 100, 4096, 70000}).Draw(t, "extra"),
		RcvBuf:  rapid.SampledFrom([]int{2048, 4096, 65536}).Draw(t, "rcvbuf"),
		SleepMS: rapid.SampledFrom([]int{0, 50, 300}).Draw(t, "sleep"),
	}
}

func runC03Pipe(c c03PipeCase, st *hx.Stats) error {
	root, err := hx.Scratch("c03pipe")
	if err != nil {
		return err
	}
	defer os.RemoveAll(root)
	big := hx.File("big.bin", c03PipeFileSize, 77)
	if err := hx.Materialize(root, hx.Dir("", big)); err != nil {
		return err
	}
	tg, err := hx.StartInproc(root, hx.InprocOpts{})
	if err != nil {
		return err
	}
	defer tg.Close()
	d := net.Dialer{Timeout: 5 * time.Second, Control: func(network, address string, rc syscall.RawConn) error {
		var serr error
		rc.Control(func(fd uintptr) { serr = syscall.SetsockoptInt(int(fd), syscall.SOL_SOCKET, syscall.SO_RCVBUF, c.RcvBuf) })
		return serr
	}}
	conn, err := d.DialContext(context.Background(), "tcp4", tg.Addr)
	if err != nil {
		return &hx.InfraError{Err: err}
	}
	defer conn.Close()
	var out bytes.Buffer
	out.Write(hx.Req{Op: "OPEN_FILE", Path: "/big.bin"}.Encode())
	out.Write(hx.Req{Op: "READ_FILE", N: uint32(c.N), Off: uint64(c.Off)}.Encode())
	switch c.Bad {
	case "unknown":
		bad := make([]byte, 16)
		binary.BigEndian.PutUint16(bad, 0x7777)
		out.Write(bad)
	case "truncated-path":
		// OPEN_FILE announcing a path of 60000 bytes of which only Extra arrive (then the client stops sending)
		b := hx.Req{Op: "OPEN_FILE", Path: hx.BStr(bytes.Repeat([]byte("p"), 60000))}.Encode()
		out.Write(b[:16])
	case "oversized-write":
		// WRITE_FILE while writing is off and no file is open, announcing more than will ever arrive
		b := hx.Req{Op: "WRITE", N: 1 << 20, Seed: 5}.Encode()
		out.Write(b[:16])
	}
	out.Write(bytes.Repeat([]byte{0xEE}, c.Extra))
	if _, err := conn.Write(out.Bytes()); err != nil {
		return &hx.InfraError{Err: err}
	}
	time.Sleep(time.Duration(c.SleepMS) * time.Millisecond)
	want := c.N
	if c.Off+want > c03PipeFileSize {
		want = c03PipeFileSize - c.Off
	}
	wantLen := 16 + 4 + want
	conn.SetReadDeadline(time.Now().Add(20 * time.Second))
	got := make([]byte, 0, wantLen+64)
	buf := make([]byte, 32768)
	var rerr error
	for len(got) < wantLen+64 {
		n, err := conn.Read(buf)
		got = append(got, buf[:n]...)
		if err != nil {
			rerr = err
			break
		}
		if len(got) >= wantLen && c.Bad != "unknown" {
			break // the server is entitled to wait for the rest of the bad request; the answer is complete
		}
	}
	st.Label("bad="+c.Bad, fmt.Sprintf("extra>0=%v", c.Extra > 0))
	if c.Extra > 0 && c.N >= 65536 {
		st.NT(fmt.Sprintf("%v", c))
	}
	st.Sample(c)
	if ne, ok := rerr.(net.Error); ok && ne.Timeout() && len(got) < wantLen {
		return hx.Failf("reply-missing", "only %d of %d answer bytes within 20 s (%+v)", len(got), wantLen, c)
	}
	if len(got) < wantLen {
		return hx.Failf("answer-survives-close", "the answer to the valid READ_FILE(n=%d) sent before the bad request (%s + %d bytes) arrived only in part: %d of %d bytes, then %v", c.N, c.Bad, c.Extra, len(got), wantLen, rerr)
	}
	if c.Bad != "unknown" {
		got = got[:wantLen] // (a bad request completed by the trailing bytes gets an answer of its own)
	}
	if k := int(int32(binary.BigEndian.Uint32(got[16:20]))); k != want {
		return hx.Failf("read-announce", "announced %d, expected %d", k, want)
	}
	if !bytes.Equal(got[20:wantLen], big.Content(int64(c.Off), want)) {
		return hx.Failf("read-bytes", "the answer's %d bytes differ from the file", want)
	}
	if len(got) > wantLen {
		return hx.Failf("ends-connection", "%d stray bytes after the last answer", len(got)-wantLen)
	}
	if c.Bad == "unknown" && rerr != io.EOF && !isReset(rerr) {
		return hx.Failf("ends-connection", "after the unknown request the connection did not end: %v", rerr)
	}
	return nil
}

func isReset(err error) bool {
	oe, ok := err.(*net.OpError)
	if !ok {
		return false
	}
	se, ok := oe.Err.(*os.SyscallError)
	return ok && se.Err == syscall.ECONNRESET
}

func TestC03PipeClose(t *testing.T) {
	st := hx.NewStats("C03", "pipeclose")
	hx.RunProp(t, st, genC03Pipe, runC03Pipe, hx.PropOpts{})
}
