package props

import (
	"bytes"
	"encoding/binary"
	"fmt"
	"io"
	"os"
	"path/filepath"
	"sort"
	"testing"

	"github.com/spf13/afero"
	"pgregory.net/rapid"

	pfs "github.com/xakep666/ps3netsrv-go/pkg/fs"
	"github.com/xakep666/ps3netsrv-go/verif/hx"
	"github.com/xakep666/ps3netsrv-go/verif/refcrypt"
)

// ---- C10: on-the-fly decryption equals the reference ---------------------------------------

type c10Case struct {
	Key     hx.BStr           `json:"key"`
	Regions []refcrypt.Region `json:"regions"`
	Sectors int               `json:"sectors"`
	Tail    int               `json:"tail"` // extra bytes after the last full sector
	Seed    uint64            `json:"seed"`
	Clear   bool              `json:"clear"`
	Chop    uint64            `json:"chop"`
	Ops     []c09Op           `json:"ops"`
	Invalid string            `json:"invalid,omitempty"`
	RawHdr  hx.BStr           `json:"raw_hdr,omitempty"` // invalid tables: literal header bytes
}

func (c c10Case) stored() []byte {
	data := hx.PRFBytes(c.Seed, 0, c.Sectors*2048+c.Tail)
	hdr := refcrypt.EncodeTable(c.Regions)
	if c.Invalid != "" {
		hdr = []byte(c.RawHdr)
	}
	copy(data, hdr)
	if len(hdr) > len(data) {
		data = append(data[:0], hdr[:len(data)]...)
	}
	return data
}

func genRegions(t *rapid.T, sectors int) []refcrypt.Region {
	n := 2
	switch rapid.IntRange(0, 9).Draw(t, "nreg-class") {
	case 0:
		n = 255
	case 1, 2:
		n = rapid.IntRange(7, 60).Draw(t, "nreg")
	default:
		n = rapid.IntRange(2, 6).Draw(t, "nreg")
	}
	// 2n increasing borders; adjacency allowed between End_i and Start_{i+1}
	max := sectors + 4
	if max < 2*n+2 {
		max = 2*n + 2
	}
	pts := make([]int, 0, 2*n)
	pts = append(pts, 0)
	cur := 0
	for i := 1; i < 2*n; i++ {
		remaining := 2*n - i
		room := max - cur - remaining
		step := 1
		if room > 1 {
			switch rapid.IntRange(0, 3).Draw(t, fmt.Sprintf("step-c%d", i)) {
			case 0:
				step = 1
			case 1:
				step = rapid.IntRange(1, min(room, 4)).Draw(t, fmt.Sprintf("step%d", i))
			default:
				step = rapid.IntRange(1, min(room, 1+max/(n))).Draw(t, fmt.Sprintf("step%d", i))
			}
		}
		if i%2 == 0 && rapid.IntRange(0, 3).Draw(t, fmt.Sprintf("adj%d", i)) == 0 {
			step = 0 // Start == previous End: adjacent regions
		}
		cur += step
		pts = append(pts, cur)
	}
	if rapid.IntRange(0, 3).Draw(t, "beyond") == 0 {
		pts[len(pts)-1] = sectors + rapid.IntRange(0, 50).Draw(t, "beyond-by")
		if pts[len(pts)-1] <= pts[len(pts)-2] {
			pts[len(pts)-1] = pts[len(pts)-2] + 1
		}
	}
	if rapid.IntRange(0, 5).Draw(t, "far-beyond") == 0 {
		// the last plain region far behind the file, up to the largest sector numbers the map can hold: everything
		// from the previous region's end to the end of the file is then encrypted
		st := rapid.SampledFrom([]int{1<<31 - 2, 1<<31 - 1, 1 << 31, 1<<31 + 5, 0xFFFFFFF0, 0xFFFFFFFE}).Draw(t, "far-start")
		pts[len(pts)-2] = st
		pts[len(pts)-1] = st + 1 + rapid.IntRange(0, 1).Draw(t, "far-len")*(0xFFFFFFFF-st-1)
		if pts[len(pts)-1] > 0xFFFFFFFF {
			pts[len(pts)-1] = 0xFFFFFFFF
		}
	}
	rs := make([]refcrypt.Region, n)
	for i := range rs {
		rs[i] = refcrypt.Region{Start: uint32(pts[2*i]), End: uint32(pts[2*i+1])}
	}
	return rs
}

func genC10(t *rapid.T) c10Case {
	c := c10Case{Key: hx.BStr(rapid.SliceOfN(rapid.Byte(), 16, 16).Draw(t, "key")), Sectors: rapid.IntRange(2, 80).Draw(t, "sectors"),
		Seed: rapid.Uint64Range(1, 1<<40).Draw(t, "seed"), Clear: rapid.Bool().Draw(t, "clear")}
	if rapid.IntRange(0, 9).Draw(t, "big") == 0 {
		c.Sectors = rapid.IntRange(81, 600).Draw(t, "sectors-big")
	}
	if rapid.IntRange(0, 5).Draw(t, "tail") == 0 {
		c.Tail = rapid.IntRange(1, 2047).Draw(t, "tailbytes")
	}
	if rapid.IntRange(0, 2).Draw(t, "chop") > 0 {
		c.Chop = rapid.Uint64Range(1, 1<<30).Draw(t, "chopseed")
	}
	if rapid.IntRange(0, 7).Draw(t, "invalid") == 0 {
		c.Invalid = rapid.SampledFrom([]string{"count0", "count1", "first-start-nonzero", "end-le-start", "decreasing", "table-beyond-file", "count-4096"}).Draw(t, "invalid-class")
		good := genRegions(t, c.Sectors)
		switch c.Invalid {
		case "count0":
			c.RawHdr = hx.BStr(refcrypt.EncodeTable(nil))
		case "count1":
			c.RawHdr = hx.BStr(refcrypt.EncodeTable(good[:1]))
		case "first-start-nonzero":
			good[0].Start = uint32(rapid.IntRange(1, 3).Draw(t, "fs"))
			if good[0].End <= good[0].Start {
				good[0].End = good[0].Start + 1
			}
			c.RawHdr = hx.BStr(refcrypt.EncodeTable(good))
		case "end-le-start":
			i := rapid.IntRange(0, len(good)-1).Draw(t, "which")
			good[i].End = good[i].Start - uint32(rapid.IntRange(0, 1).Draw(t, "by"))
			if i == 0 {
				good[i].End = 0
			}
			c.RawHdr = hx.BStr(refcrypt.EncodeTable(good))
		case "decreasing":
			i := rapid.IntRange(1, len(good)-1).Draw(t, "which")
			if good[i-1].End == 0 {
				good[i-1].End = 1
			}
			good[i].Start = good[i-1].End - 1
			if good[i].End <= good[i].Start {
				good[i].End = good[i].Start + 1
			}
			c.RawHdr = hx.BStr(refcrypt.EncodeTable(good))
		case "table-beyond-file":
			c.Sectors = 2
			hdr := refcrypt.EncodeTable(good)
			binary.BigEndian.PutUint32(hdr, uint32(rapid.SampledFrom([]int{600, 1000, 70000}).Draw(t, "cnt")))
			c.RawHdr = hx.BStr(hdr)
		case "count-4096":
			hdr := refcrypt.EncodeTable(good)
			binary.BigEndian.PutUint32(hdr, 4096)
			c.RawHdr = hx.BStr(hdr)
		}
		return c
	}
	c.Regions = genRegions(t, c.Sectors)
	n := rapid.IntRange(1, 30).Draw(t, "nops")
	for i := 0; i < n; i++ {
		l := fmt.Sprintf("op%d", i)
		op := c09Op{Kind: rapid.SampledFrom([]string{"read", "read", "seek", "readat", "readat"}).Draw(t, l+"-kind"), Bound: -1, EndBound: -1}
		if rapid.IntRange(0, 3).Draw(t, l+"-rel") > 0 {
			op.Bound = rapid.IntRange(0, 600).Draw(t, l+"-bound")
			op.Off = int64(rapid.SampledFrom([]int{-2049, -2048, -17, -16, -1, 0, 1, 15, 16, 17, 1000, 2047, 2048, 2049}).Draw(t, l+"-delta"))
		} else {
			op.Off = rapid.Int64Range(-3000, int64(c.Sectors+2)*2048).Draw(t, l+"-off")
		}
		op.N = rapid.SampledFrom([]int{1, 15, 16, 17, 100, 2047, 2048, 2049, 4096, 5000, 6143, 6144, 6145, 8193, 65536}).Draw(t, l+"-n")
		if op.Kind == "seek" {
			op.Whence = rapid.IntRange(0, 2).Draw(t, l+"-whence")
		}
		c.Ops = append(c.Ops, op)
	}
	return c
}

// c10Mode: how the End sector of a plain region is read (DESIGN 2.1): fixed per process on first evidence.
var c10Mode = 0 // 0 unknown, 1 = End exclusive (decrypted), 2 = End inclusive (stored)

type c10Refs struct {
	a, b []byte // reference plaintexts for the two readings of End
}

func (r c10Refs) match(off int64, got []byte) (bool, string) {
	ea, eb := r.a[off:off+int64(len(got))], r.b[off:off+int64(len(got))]
	okA, okB := bytes.Equal(ea, got), bytes.Equal(eb, got)
	switch {
	case okA && okB:
		return true, ""
	case okA && c10Mode != 2:
		c10Mode = 1
		return true, ""
	case okB && c10Mode != 1:
		c10Mode = 2
		return true, ""
	}
	d := 0
	ref := ea
	if c10Mode == 2 {
		ref = eb
	}
	for d < len(got) && got[d] == ref[d] {
		d++
	}
	return false, fmt.Sprintf("differs from the reference plaintext at image offset %d (sector %d + %d)", off+int64(d), (off+int64(d))/2048, (off+int64(d))%2048)
}

func runC10(c c10Case, st *hx.Stats) error {
	stored := c.stored()
	dir, err := hx.Scratch("enc")
	if err != nil {
		return err
	}
	defer os.RemoveAll(dir)
	p := filepath.Join(dir, "img.iso")
	if err := os.WriteFile(p, stored, 0o644); err != nil {
		return err
	}
	raw, err := afero.NewOsFs().Open(p)
	if err != nil {
		return err
	}
	var under afero.File = raw
	var chop *hx.ChopFile
	if c.Chop != 0 {
		chop = &hx.ChopFile{File: raw, Seed: c.Chop}
		under = chop
	}
	defer raw.Close()
	if c.Invalid != "" {
		st.Label("invalid table: " + c.Invalid)
		st.NT("invalid|" + c.Invalid + "|" + string(c.RawHdr[:min(len(c.RawHdr), 64)]))
		st.Sample(map[string]any{"invalid": c.Invalid, "sectors": c.Sectors})
		e, err := pfs.NewEncryptedISO(under, []byte(c.Key), c.Clear)
		if err == nil {
			_ = e
			return hx.Failf("rejects-invalid-table", "region table of class %q accepted", c.Invalid)
		}
		return nil
	}
	// the caller's key slice is handed over as it is and used again for a second view of the same image: "for every disc
	// key" holds for a key that has been used before, too
	callerKey := append(make([]byte, 0, 64), []byte(c.Key)...)
	e, err := pfs.NewEncryptedISO(under, callerKey, c.Clear)
	if err != nil {
		return hx.Failf("accepts-valid-table", "valid region table %v rejected: %v", c.Regions, err)
	}
	if raw2, err2 := afero.NewOsFs().Open(p); err2 == nil {
		// a second view made with the same key slice decrypts like the first one
		defer raw2.Close()
		e2, err := pfs.NewEncryptedISO(raw2, callerKey, c.Clear)
		if err != nil {
			return hx.Failf("accepts-valid-table", "second view of the same image with the same key slice rejected: %v", err)
		}
		probe := make([]byte, 3*2048)
		for _, r := range c.Regions {
			off := int64(r.End) * 2048 // first sector behind a plain region: encrypted unless the file ends there
			if r.End < 1<<20 && off+2048 <= int64(len(stored)) {
				n, _ := e2.ReadAt(probe, off)
				ta := refcrypt.Table{Plain: c.Regions, Bytes: 8 + 8*len(c.Regions)}
				x, _ := refcrypt.Plaintext(stored, []byte(c.Key), ta, c.Clear, false)
				y, _ := refcrypt.Plaintext(stored, []byte(c.Key), ta, c.Clear, true)
				if n > 0 && !bytes.Equal(probe[:n], x[off:off+int64(n)]) && !bytes.Equal(probe[:n], y[off:off+int64(n)]) {
					return hx.Failf("decrypt-bytes", "second view opened with the same key slice: %d bytes at %d differ from the reference plaintext", n, off)
				}
				st.Label("second view with the caller's key slice compared")
				break
			}
		}
	}
	tab := refcrypt.Table{Plain: c.Regions, Bytes: 8 + 8*len(c.Regions)}
	ra, _ := refcrypt.Plaintext(stored, []byte(c.Key), tab, c.Clear, false)
	rb, _ := refcrypt.Plaintext(stored, []byte(c.Key), tab, c.Clear, true)
	refs := c10Refs{ra, rb}
	size := int64(len(stored))
	// boundaries: region borders in bytes, table end, file end
	bset := map[int64]bool{0: true, size: true, int64(tab.Bytes): true}
	for _, r := range c.Regions {
		bset[int64(r.Start)*2048] = true
		bset[int64(r.End)*2048] = true
		bset[int64(r.End+1)*2048] = true
	}
	var bounds []int64
	for b := range bset {
		if b <= size+4096 {
			bounds = append(bounds, b)
		}
	}
	sort.Slice(bounds, func(i, j int) bool { return bounds[i] < bounds[j] })
	encAt := func(off int64) bool {
		s := uint32(off / 2048)
		return off < size && (tab.Encrypted(s, false) || tab.Encrypted(s, true))
	}
	classify := func(kind string, off int64, n int) {
		if n <= 0 || off >= size || off < 0 {
			return
		}
		end := off + int64(n)
		if end > size {
			end = size
		}
		var ls []string
		if (off%2048 != 0 && encAt(off)) || (end%2048 != 0 && encAt(end-1)) {
			ls = append(ls, kind+": starts or ends inside an encrypted sector")
		}
		for _, r := range c.Regions {
			for _, b := range []int64{int64(r.Start) * 2048, int64(r.End) * 2048, int64(r.End+1) * 2048} {
				if off < b && b < end {
					ls = append(ls, kind+": spans a region border")
					break
				}
			}
		}
		if off < int64(tab.Bytes) && c.Clear {
			ls = append(ls, kind+": touches the cleared region table")
		}
		if len(ls) > 0 {
			st.Label(ls...)
			st.NT(fmt.Sprintf("%s|%d|%d|%d|%v", kind, off%2048, n, len(c.Regions), c.Clear))
		}
	}
	cur := int64(0)
	for i, op := range c.Ops {
		off, n := op.Off, op.N
		if op.Bound >= 0 {
			off = bounds[op.Bound%len(bounds)] + op.Off
		}
		switch op.Kind {
		case "readat":
			if off < 0 {
				off = 0
			}
			classify("positional", off, n)
			buf := make([]byte, n)
			got, err := e.ReadAt(buf, off)
			want := int64(n)
			if off >= size {
				want = 0
			} else if want > size-off {
				want = size - off
			}
			if int64(got) != want {
				return hx.Failf("readat-contract", "op %d: ReadAt(len %d, off %d) on a view of %d bytes returned n=%d err=%v, want n=%d", i, n, off, size, got, err, want)
			}
			if got > 0 {
				if ok, why := refs.match(off, buf[:got]); !ok {
					return hx.Failf("decrypt-bytes", "op %d: ReadAt(len %d, off %d): %s", i, n, off, why)
				}
			}
			if got == n && err != nil {
				return hx.Failf("readat-contract", "op %d: ReadAt(len %d, off %d) filled the buffer but returned %v", i, n, off, err)
			}
			if got < n && err != nil && err != io.EOF {
				return hx.Failf("readat-contract", "op %d: ReadAt(len %d, off %d) short with err=%v", i, n, off, err)
			}
		case "read":
			classify("sequential", cur, n)
			buf := make([]byte, n)
			got, err := e.Read(buf)
			if cur >= size {
				if got != 0 || err != io.EOF {
					return hx.Failf("read-eof", "op %d: Read(len %d) at cursor %d >= size %d returned n=%d err=%v", i, n, cur, size, got, err)
				}
				continue
			}
			if got <= 0 || int64(got) > min64i(int64(n), size-cur) {
				return hx.Failf("read-contract", "op %d: Read(len %d) at cursor %d (size %d) returned n=%d err=%v", i, n, cur, size, got, err)
			}
			if ok, why := refs.match(cur, buf[:got]); !ok {
				return hx.Failf("decrypt-bytes", "op %d: Read(len %d) at cursor %d: %s", i, n, cur, why)
			}
			if err != nil && !(err == io.EOF && cur+int64(got) == size) {
				return hx.Failf("read-contract", "op %d: Read returned data with err=%v", i, err)
			}
			cur += int64(got)
		case "seek":
			var target, arg int64
			switch op.Whence {
			case io.SeekStart:
				target, arg = off, off
			case io.SeekCurrent:
				target, arg = off, off-cur
			case io.SeekEnd:
				target, arg = off, off-size
			}
			pos, err := e.Seek(arg, op.Whence)
			if target < 0 {
				if err == nil {
					return hx.Failf("seek-contract", "op %d: Seek to negative position %d succeeded (%d)", i, target, pos)
				}
				continue
			}
			if err != nil || pos != target {
				return hx.Failf("seek-contract", "op %d: Seek(%d, %d) at cursor %d returned (%d, %v), want (%d, nil)", i, arg, op.Whence, cur, pos, err, target)
			}
			cur = target
		}
	}
	// whole view by io.ReadAll from the start equals the reference
	if _, err := e.Seek(0, io.SeekStart); err != nil {
		return hx.Failf("seek-contract", "Seek(0) failed: %v", err)
	}
	all, err := io.ReadAll(e)
	if err != nil {
		return hx.Failf("read-contract", "ReadAll failed after %d bytes: %v", len(all), err)
	}
	if int64(len(all)) != size {
		return hx.Failf("read-contract", "ReadAll returned %d bytes, view has %d", len(all), size)
	}
	if ok, why := refs.match(0, all); !ok {
		return hx.Failf("decrypt-bytes", "ReadAll: %s", why)
	}
	if chop != nil && chop.Cuts > 0 {
		st.Label("underlying short reads happened")
	}
	st.Label(fmt.Sprintf("clear=%v", c.Clear))
	if len(c.Regions) >= 7 {
		st.Label("regions >= 7")
	}
	st.Sample(map[string]any{"regions": c.Regions[:min(len(c.Regions), 6)], "nregions": len(c.Regions), "sectors": c.Sectors, "tail": c.Tail, "clear": c.Clear, "ops": len(c.Ops), "chop": c.Chop != 0})
	return nil
}

func TestC10Lib(t *testing.T) {
	st := hx.NewStats("C10", "lib")
	hx.RunProp(t, st, genC10, runC10, hx.PropOpts{})
}
