package props

import (
	"fmt"
	"os"
	"os/signal"
	"path/filepath"
	"syscall"
	"testing"
	"time"

	"golang.org/x/sys/unix"

	"github.com/xakep666/ps3netsrv-go/verif/hx"
)

// ---- C02 lease unit: a file another process holds a lease on (Samba oplocks, NFS delegations) ------------------
//
// The holder is told (SIGIO) when somebody else opens the file and gives the lease up a moment later; an ordinary
// open just waits for that. The server must do the same: announce the file's size and serve its bytes, not fail
// the open because it would have had to wait.

type c02LeaseCase struct {
	Op      string `json:"op"` // OPEN_FILE | OPEN_DIR (of the directory holding the file: not leased, control) | CREATE
	DelayMs int    `json:"delay_ms"`
}

func runC02Lease(c c02LeaseCase, st *hx.Stats) error {
	root, err := hx.Scratch("c02lease")
	if err != nil {
		return err
	}
	defer os.RemoveAll(root)
	if err := hx.Materialize(root, hx.Dir("", hx.Dir("d", hx.File("game.iso", 70000, 91)), hx.File("other.bin", 10, 92))); err != nil {
		return err
	}
	var extra []string
	if c.Op == "CREATE" {
		extra = append(extra, "--allow-write")
	}
	b, err := hx.StartServerBin(root, extra, nil, root)
	if err != nil {
		return err
	}
	defer b.Kill()
	p := filepath.Join(root, "d", "game.iso")
	f, err := os.Open(p)
	if err != nil {
		return err
	}
	defer f.Close()
	sig := make(chan os.Signal, 4)
	signal.Notify(sig, syscall.SIGIO)
	defer signal.Stop(sig)
	if _, err := unix.FcntlInt(f.Fd(), unix.F_SETLEASE, unix.F_WRLCK); err != nil {
		st.Label("leases not available here: " + err.Error())
		return nil // nothing to judge
	}
	released := make(chan struct{})
	go func() {
		defer close(released)
		select {
		case <-sig:
			time.Sleep(time.Duration(c.DelayMs) * time.Millisecond)
		case <-time.After(8 * time.Second):
		}
		_, _ = unix.FcntlInt(f.Fd(), unix.F_SETLEASE, unix.F_UNLCK)
	}()
	conn, err := hx.Dial(b.Addr)
	if err != nil {
		return err
	}
	defer conn.Close()
	m := hx.NewModel(root, c.Op == "CREATE")
	m.MaskATime = true
	var reqs []hx.Req
	switch c.Op {
	case "CREATE":
		reqs = []hx.Req{{Op: "CREATE", Path: "/d/game.iso"}, {Op: "WRITE", N: 100, Seed: 4}, {Op: "STAT", Path: "/d/game.iso"}}
	default:
		reqs = []hx.Req{{Op: "OPEN_FILE", Path: "/d/game.iso"}, {Op: "READ_FILE", N: 70000, Off: 0}, {Op: "READ_CRIT", N: 100, Off: 69900}}
	}
	for i, r := range reqs {
		if err := m.Step(conn, r); err != nil {
			if f, ok := err.(*hx.Fail); ok {
				return &hx.Fail{Clause: f.Clause, Msg: fmt.Sprintf("request #%d on a file whose lease holder gives way after %d ms: %s", i, c.DelayMs, f.Msg)}
			}
			return err
		}
	}
	<-released
	st.Label("op="+c.Op, "lease held and given up on request")
	st.NT(fmt.Sprintf("%s|%d", c.Op, c.DelayMs))
	st.Sample(c)
	return nil
}

func TestC02Lease(t *testing.T) {
	st := hx.NewStats("C02", "lease")
	st.MarkExhaustive("OPEN_FILE and CREATE_FILE of a file under a write lease whose holder releases it 20 / 300 ms after being asked (real binary)")
	cases := func(yield func(c02LeaseCase) bool) {
		for _, op := range []string{"OPEN_FILE", "CREATE"} {
			for _, d := range []int{20, 300} {
				if !yield(c02LeaseCase{Op: op, DelayMs: d}) {
					return
				}
			}
		}
	}
	hx.RunCases(t, st, cases, runC02Lease, hx.PropOpts{})
}
