package props

import (
	"bytes"
	"encoding/binary"
	"fmt"
	"os"
	"os/exec"
	"path/filepath"
	"strings"
	"testing"

	pfs "github.com/xakep666/ps3netsrv-go/pkg/fs"
	"github.com/xakep666/ps3netsrv-go/verif/hx"
	"github.com/xakep666/ps3netsrv-go/verif/isoread"
)

// Negative self-tests of the validator: every clause must fire on an image
// corrupted in exactly that respect (a validator that accepts everything would
// make C08 vacuous).
func TestC08Negative(t *testing.T) {
	st := hx.NewStats("C08", "negative")
	defer st.Flush()
	if os.Getenv("VERIF_REPLAY") != "" {
		t.Skip("replay of another unit")
	}
	tree := hx.Dir("",
		hx.File("A.BIN", 3000, 1), hx.File("B.BIN", 2048, 2), hx.File("EMPTY", 0, 3),
		hx.Dir("SUB", hx.File("C.BIN", 5, 4), hx.Dir("DEEP", hx.File("D.BIN", 70000, 5))),
		hx.Dir("WIDE"))
	wide := tree.Find("WIDE")
	for i := 0; i < 80; i++ {
		wide.Children = append(wide.Children, hx.File(fmt.Sprintf("W%03d.DAT", i), int64(i%3), uint64(100+i)))
	}
	tree = withPS3(tree, "BLES01234", nil)
	fx, err := newIsoFixture(tree)
	if err != nil {
		t.Fatal(err)
	}
	defer fx.Close()
	viso, err := pfs.NewVirtualISO(fx.Fs, fx.Root, true)
	if err != nil {
		t.Fatal(err)
	}
	img, err := readAllAligned(viso, 65536, 64<<20)
	viso.Close()
	if err != nil {
		t.Fatal(err)
	}
	validate := func(b []byte, announced int64) []isoread.Problem {
		v, err := isoread.Parse(bytes.NewReader(b), int64(len(b)))
		if v == nil {
			return []isoread.Problem{{Clause: "parse", Msg: err.Error()}}
		}
		p := v.Validate(isoread.ValidateOpts{AnnouncedSize: announced, SizeClauses: true, PS3: true, TitleID: "BLES01234", NamesDistinct: true, MaxPTDirs: 65536})
		if err != nil {
			p = append(p, isoread.Problem{Clause: "parse", Msg: err.Error()})
		}
		return p
	}
	if p := validate(img, int64(len(img))); len(p) > 0 {
		t.Fatalf("pristine image rejected: %v", p)
	}
	v0, _ := isoread.Parse(bytes.NewReader(img), int64(len(img)))
	sub := v0.Primary.Root.Children
	var subDir, deepDir *isoread.Entry
	for _, c := range sub {
		if c.Name == "SUB" {
			subDir = c
		}
	}
	for _, c := range subDir.Children {
		if c.Name == "DEEP" {
			deepDir = c
		}
	}
	var aFile *isoread.Entry
	for _, f := range v0.Primary.Files {
		if f.Name == "A.BIN" {
			aFile = f
		}
	}
	le32 := func(b []byte, off int64, v uint32) { binary.LittleEndian.PutUint32(b[off:], v) }
	be32 := func(b []byte, off int64, v uint32) { binary.BigEndian.PutUint32(b[off:], v) }
	type neg struct {
		name   string
		clause string // expected clause prefix
		mut    func(b []byte) ([]byte, int64)
	}
	S := int64(2048)
	negs := []neg{
		{"size not multiple of sector", "size", func(b []byte) ([]byte, int64) { return b[:len(b)-1], int64(len(b) - 1) }},
		{"announced size differs", "size", func(b []byte) ([]byte, int64) { return b, int64(len(b)) + 2048 }},
		{"space size differs from length", "size", func(b []byte) ([]byte, int64) { le32(b, 16*S+80, 7); be32(b, 16*S+84, 7); return b, int64(len(b)) }},
		{"svd space size differs", "size", func(b []byte) ([]byte, int64) { le32(b, 17*S+80, 9); be32(b, 17*S+84, 9); return b, int64(len(b)) }},
		{"terminator missing", "descriptors-in-place", func(b []byte) ([]byte, int64) { b[18*S] = 3; return b, int64(len(b)) }},
		{"pvd BE space differs", "both-endian", func(b []byte) ([]byte, int64) { be32(b, 16*S+84, 1); return b, int64(len(b)) }},
		{"pvd path table size BE differs", "both-endian", func(b []byte) ([]byte, int64) { be32(b, 16*S+136, 1); return b, int64(len(b)) }},
		{"record BE extent differs", "both-endian", func(b []byte) ([]byte, int64) { be32(b, subDir.Rec.Pos+6, 1); return b, int64(len(b)) }},
		{"record length byte too small", "record-fits", func(b []byte) ([]byte, int64) { b[subDir.Rec.Pos] = 34; return b, int64(len(b)) }},
		{"dot points elsewhere", "links-consistent", func(b []byte) ([]byte, int64) {
			p := int64(subDir.DirLBA) * S
			le32(b, p+2, subDir.DirLBA+1)
			be32(b, p+6, subDir.DirLBA+1)
			return b, int64(len(b))
		}},
		{"dotdot points to wrong parent", "links-consistent", func(b []byte) ([]byte, int64) {
			p := int64(deepDir.DirLBA)*S + 34
			le32(b, p+2, v0.Primary.Root.DirLBA)
			be32(b, p+6, v0.Primary.Root.DirLBA)
			return b, int64(len(b))
		}},
		{"dotdot length zero", "links-consistent", func(b []byte) ([]byte, int64) {
			p := int64(deepDir.DirLBA)*S + 34
			le32(b, p+10, 0)
			be32(b, p+14, 0)
			return b, int64(len(b))
		}},
		{"child record length differs", "links-consistent", func(b []byte) ([]byte, int64) {
			le32(b, subDir.Rec.Pos+10, 4096)
			be32(b, subDir.Rec.Pos+14, 4096)
			return b, int64(len(b))
		}},
		{"root record differs from root dot", "links-consistent", func(b []byte) ([]byte, int64) {
			le32(b, 16*S+156+10, 4096)
			be32(b, 16*S+156+14, 4096)
			return b, int64(len(b))
		}},
		{"M table entry differs", "path-table", func(b []byte) ([]byte, int64) {
			p := int64(v0.Primary.MLoc)*S + 10 // second entry's extent
			b[p+2+3] ^= 1
			return b, int64(len(b))
		}},
		{"path table parent number wrong", "path-table", func(b []byte) ([]byte, int64) {
			// last entries are deeper dirs: set parent of entry #last to 1 in both tables when it is not
			for _, loc := range []uint32{v0.Primary.LLoc, v0.Primary.MLoc} {
				raw := b[int64(loc)*S:]
				pos, n := 0, 0
				for pos < int(v0.Primary.PTSize[0]) {
					nl := int(raw[pos])
					n++
					name := string(raw[pos+8 : pos+8+nl])
					if name == "DEEP" {
						raw[pos+6], raw[pos+7] = 0, 0
						if loc == v0.Primary.LLoc {
							raw[pos+6] = 1
						} else {
							raw[pos+7] = 1
						}
					}
					pos += 8 + nl + nl%2
				}
			}
			return b, int64(len(b))
		}},
		{"path table size field wrong", "path-table", func(b []byte) ([]byte, int64) {
			sz := v0.Primary.PTSize[0] - 2
			le32(b, 16*S+132, sz)
			be32(b, 16*S+136, sz)
			return b, int64(len(b))
		}},
		{"path table extent wrong", "path-table", func(b []byte) ([]byte, int64) {
			for _, loc := range []uint32{v0.Primary.LLoc, v0.Primary.MLoc} {
				raw := b[int64(loc)*S:]
				if loc == v0.Primary.LLoc {
					binary.LittleEndian.PutUint32(raw[12:], 3)
				} else {
					binary.BigEndian.PutUint32(raw[12:], 3)
				}
			}
			return b, int64(len(b))
		}},
		{"file extent outside volume", "extents-inside-volume", func(b []byte) ([]byte, int64) {
			le32(b, aFile.Rec.Pos+2, uint32(len(b)/2048)+5)
			be32(b, aFile.Rec.Pos+6, uint32(len(b)/2048)+5)
			return b, int64(len(b))
		}},
		{"file extents overlap", "extents-disjoint", func(b []byte) ([]byte, int64) {
			le32(b, aFile.Rec.Pos+2, subDir.DirLBA)
			be32(b, aFile.Rec.Pos+6, subDir.DirLBA)
			return b, int64(len(b))
		}},
		{"sector tail not zero", "padding-zero", func(b []byte) ([]byte, int64) {
			b[int64(aFile.Extents[0].LBA)*S+3000+5] = 7
			return b, int64(len(b))
		}},
		{"trailing pad not zero", "padding-zero", func(b []byte) ([]byte, int64) { b[len(b)-10] = 1; return b, int64(len(b)) }},
		{"ps3 sector 0 region end wrong", "ps3-sectors", func(b []byte) ([]byte, int64) { b[15] ^= 1; return b, int64(len(b)) }},
		{"ps3 product code wrong", "ps3-sectors", func(b []byte) ([]byte, int64) { b[2048+20] = 'X'; return b, int64(len(b)) }},
		{"record straddles sector", "record-no-straddle", func(b []byte) ([]byte, int64) {
			// shift the records of WIDE's second sector back over the padding: make the last record of sector 1 longer
			var wd *isoread.Entry
			for _, c := range v0.Primary.Root.Children {
				if c.Name == "WIDE" {
					wd = c
				}
			}
			base := int64(wd.DirLBA) * S
			// find last record in the first sector
			var last isoread.Record
			for _, r := range wd.Records {
				if r.Pos < base+S {
					last = r
				}
			}
			b[last.Pos] = byte(int(base+S-last.Pos) + 2) // now crosses the boundary
			return b, int64(len(b))
		}},
	}
	for _, n := range negs {
		st.Eval()
		cp := append([]byte(nil), img...)
		mb, ann := n.mut(cp)
		probs := validate(mb, ann)
		hit := false
		for _, p := range probs {
			if strings.HasPrefix(p.Clause, n.clause) {
				hit = true
			}
		}
		st.NT("neg|" + n.name)
		st.Label("negative self-test: " + n.clause)
		if !hit {
			t.Errorf("validator did not report clause %q for corruption %q (reported: %v)", n.clause, n.name, probs)
		}
	}
	st.Sample(map[string]any{"negative_self_tests": len(negs)})

	// third-party anchors
	if data, err := os.ReadFile("/repo/internal/testutil/testdata/testimg.iso"); err == nil {
		st.Eval()
		v, err := isoread.Parse(bytes.NewReader(data), int64(len(data)))
		if err != nil {
			t.Errorf("third-party testimg.iso does not parse: %v", err)
		} else if p := v.Validate(isoread.ValidateOpts{AnnouncedSize: -1, NamesDistinct: true}); len(p) > 0 {
			t.Errorf("third-party testimg.iso rejected: %v", p)
		}
		st.Label("anchor: testimg.iso accepted")
	}
	if bsdtar, err := exec.LookPath("bsdtar"); err == nil {
		// an image written by libarchive from a small tree must parse, validate and decode to the tree
		src := filepath.Join(fx.Tmp, "t")
		out := filepath.Join(fx.Tmp, "bsdtar.iso")
		cmd := exec.Command(bsdtar, "--format=iso9660", "--options", "iso9660:!rockridge,iso9660:joliet,iso9660:!zisofs,iso9660:pad", "-cf", out, "-C", src, ".")
		if ob, err := cmd.CombinedOutput(); err == nil {
			data, _ := os.ReadFile(out)
			st.Eval()
			v, err := isoread.Parse(bytes.NewReader(data), int64(len(data)))
			if err != nil {
				t.Errorf("bsdtar image does not parse: %v", err)
			} else {
				if p := v.Validate(isoread.ValidateOpts{AnnouncedSize: -1, NamesDistinct: true, SkipGaps: true}); len(p) > 0 {
					t.Errorf("bsdtar image rejected by the validator: %v", p)
				}
				// decode Joliet hierarchy and compare with the tree
				jf, _ := v.Joliet.FileMap()
				cnt := 0
				var bad []string
				tree.Walk(func(rel string, n *hx.Node) {
					if n.Kind != "file" {
						return
					}
					cnt++
					f := jf[rel]
					if f == nil {
						bad = append(bad, "missing "+rel)
						return
					}
					got, err := v.ReadFile(f, 0, int(n.Size))
					if err != nil || !bytes.Equal(got, n.Content(0, int(n.Size))) {
						bad = append(bad, "content "+rel)
					}
				})
				if len(bad) > 0 || cnt != len(jf) {
					t.Errorf("bsdtar image decodes differently from its source: %v (files %d vs %d)", bad, cnt, len(jf))
				}
				st.Label("anchor: image written by bsdtar (libarchive) accepted and decoded to its source tree")
			}
		} else {
			st.Note("bsdtar could not write an iso: " + head(string(ob), 200))
		}
	} else {
		st.Note("bsdtar not on PATH: libarchive anchor skipped")
	}
}
