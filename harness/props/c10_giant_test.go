package props

import (
	"bytes"
	"fmt"
	"io"
	"testing"

	"pgregory.net/rapid"

	pfs "github.com/xakep666/ps3netsrv-go/pkg/fs"
	"github.com/xakep666/ps3netsrv-go/verif/hx"
	"github.com/xakep666/ps3netsrv-go/verif/refcrypt"
)

// ---- C10 giant: stored files of several TiB (synthetic), where 32-bit sector numbers and byte counters wrap ----
//
// The stored bytes are a PRF of the offset (no disk space), sector 0 carries a valid region table whose borders stay
// below 2^31 (larger images do not exist; hostile tables are C04's). The view must equal the reference at any offset:
// sectors of an encrypted gap decrypted with IV = sector number, everything else - in particular everything from
// sector 2^31 on - as stored.

type c10GiantCase struct {
	Key     hx.BStr           `json:"key"`
	Regions []refcrypt.Region `json:"regions"`
	Size    int64             `json:"size"`
	Seed    uint64            `json:"seed"`
	Clear   bool              `json:"clear"`
	Ops     []c09Op           `json:"ops"` // Kind readat|seekread, Off absolute, N length
}

func genC10Giant(t *rapid.T) c10GiantCase {
	c := c10GiantCase{Key: hx.BStr(rapid.SliceOfN(rapid.Byte(), 16, 16).Draw(t, "key")), Seed: rapid.Uint64Range(1, 1<<40).Draw(t, "seed"), Clear: rapid.Bool().Draw(t, "clear")}
	base := rapid.SampledFrom([]int64{1 << 32, 1 << 33, 1 << 42, 1<<42 + 1<<41, 1 << 43, 1<<43 + 1<<42, 1 << 44}).Draw(t, "size-base")
	c.Size = base + int64(rapid.SampledFrom([]int{-2048, -1, 0, 1, 2048, 4097, 1 << 20}).Draw(t, "size-delta"))
	sectors := c.Size / 2048
	// borders: a few near the start, then (often) a last plain region far out, so that one encrypted gap is enormous
	pts := []int64{0}
	cur := int64(0)
	n := rapid.IntRange(2, 5).Draw(t, "nreg")
	for i := 1; i < 2*n; i++ {
		cur += int64(rapid.IntRange(1, 6).Draw(t, fmt.Sprintf("step%d", i)))
		pts = append(pts, cur)
	}
	if rapid.IntRange(0, 3).Draw(t, "far") > 0 {
		lim := sectors
		if lim > 1<<31-2 {
			lim = 1<<31 - 2
		}
		far := lim - int64(rapid.SampledFrom([]int{0, 1, 2, 7, 1000, 1 << 20}).Draw(t, "far-back"))
		if far > pts[len(pts)-3]+2 {
			pts[len(pts)-2] = far - 1
			pts[len(pts)-1] = far + int64(rapid.IntRange(0, 1).Draw(t, "far-len"))
			if pts[len(pts)-1] <= pts[len(pts)-2] {
				pts[len(pts)-1] = pts[len(pts)-2] + 1
			}
			if pts[len(pts)-1] > 1<<31-1 {
				pts[len(pts)-1] = 1<<31 - 1
				pts[len(pts)-2] = 1<<31 - 2
			}
		}
	}
	if rapid.IntRange(0, 5).Draw(t, "border-beyond-2g") == 0 {
		// borders the implementation's signed sector numbers cannot hold: acceptable only if the image ends before
		// them (then they are as good as "the end"), otherwise the image has to be refused - never served undecrypted
		st := rapid.SampledFrom([]int64{1 << 31, 1<<31 + 16, 0xFFFFFFF0}).Draw(t, "far-start")
		pts[len(pts)-2], pts[len(pts)-1] = st, st+1
	}
	for i := 0; i < n; i++ {
		c.Regions = append(c.Regions, refcrypt.Region{Start: uint32(pts[2*i]), End: uint32(pts[2*i+1])})
	}
	anchors := []int64{0, 2048, c.Size, 1 << 31, 1 << 32, 1 << 42, 1 << 43, 1<<42 + 1<<41}
	for _, r := range c.Regions {
		anchors = append(anchors, int64(r.Start)*2048, int64(r.End)*2048, int64(r.End+1)*2048)
	}
	nops := rapid.IntRange(1, 12).Draw(t, "nops")
	for i := 0; i < nops; i++ {
		l := fmt.Sprintf("op%d", i)
		off := rapid.SampledFrom(anchors).Draw(t, l+"-anchor") + int64(rapid.SampledFrom([]int{-4096, -2049, -2048, -17, -1, 0, 1, 16, 2047, 2048, 2049, 100000}).Draw(t, l+"-delta"))
		if rapid.IntRange(0, 5).Draw(t, l+"-rand") == 0 {
			off = rapid.Int64Range(0, c.Size+5000).Draw(t, l+"-off")
		}
		if rapid.IntRange(0, 9).Draw(t, l+"-huge") == 0 {
			off = int64(hx.GenHugeOffset(t, l+"-hugeoff") & (1<<63 - 1))
		}
		if off < 0 {
			off = 0
		}
		c.Ops = append(c.Ops, c09Op{Kind: rapid.SampledFrom([]string{"readat", "seekread"}).Draw(t, l+"-kind"), Off: off,
			N: rapid.SampledFrom([]int{1, 16, 17, 2047, 2048, 2049, 4096, 6145, 70000}).Draw(t, l+"-n")})
	}
	return c
}

func runC10Giant(c c10GiantCase, st *hx.Stats) error {
	hdr := refcrypt.EncodeTable(c.Regions)
	node := &hx.Node{Name: "g.iso", Kind: "file", Size: c.Size, Seed: c.Seed, Patches: []hx.Patch{{Off: 0, Data: hx.BStr(hdr)}}}
	sfs := hx.NewSynthFs(hx.Dir("", node))
	f, err := sfs.Open("/g.iso")
	if err != nil {
		return err
	}
	defer f.Close()
	e, err := pfs.NewEncryptedISO(f, []byte(c.Key), c.Clear)
	if err != nil {
		last := c.Regions[len(c.Regions)-1]
		if last.End > 1<<31-1 && c.Size > (1<<31-1)*2048 {
			st.Label("image longer than 2^31 sectors with borders beyond: refused")
			st.NT(fmt.Sprintf("refused|%d|%d", c.Size, last.Start))
			return nil
		}
		return hx.Failf("accepts-valid-table", "valid region table %v of a %d-byte image rejected: %v", c.Regions, c.Size, err)
	}
	dec, err := refcrypt.NewDecryptor([]byte(c.Key))
	if err != nil {
		return err
	}
	tab := refcrypt.Table{Plain: c.Regions, Bytes: len(hdr)}
	// reference bytes [off, off+n) under one reading of End
	ref := func(off int64, n int, inclusive bool) []byte {
		if off >= c.Size {
			return nil
		}
		if int64(n) > c.Size-off {
			n = int(c.Size - off)
		}
		out := make([]byte, 0, n)
		for s := off / 2048; s*2048 < off+int64(n); s++ {
			sec := node.Content(s*2048, 2048)
			if len(sec) == 2048 && s < 1<<32 && tab.Encrypted(uint32(s), inclusive) {
				dec.DecryptSector(uint32(s), sec)
			}
			if c.Clear && s*2048 < int64(tab.Bytes) {
				for i := 0; i < len(sec) && s*2048+int64(i) < int64(tab.Bytes); i++ {
					sec[i] = 0
				}
			}
			lo, hi := int64(0), int64(len(sec))
			if s*2048 < off {
				lo = off - s*2048
			}
			if s*2048+hi > off+int64(n) {
				hi = off + int64(n) - s*2048
			}
			if lo < hi {
				out = append(out, sec[lo:hi]...)
			}
		}
		return out
	}
	match := func(off int64, got []byte) bool {
		a, b := ref(off, len(got), false), ref(off, len(got), true)
		okA, okB := bytes.Equal(a, got), bytes.Equal(b, got)
		switch {
		case okA && okB:
			return true
		case okA && c10Mode != 2:
			c10Mode = 1
			return true
		case okB && c10Mode != 1:
			c10Mode = 2
			return true
		}
		return false
	}
	for i, op := range c.Ops {
		buf := make([]byte, op.N)
		want := int64(op.N)
		if op.Off >= c.Size {
			want = 0
		} else if want > c.Size-op.Off {
			want = c.Size - op.Off
		}
		var got int
		var rerr error
		what := ""
		if op.Kind == "readat" {
			what = fmt.Sprintf("op %d: ReadAt(len %d, off %d)", i, op.N, op.Off)
			got, rerr = e.ReadAt(buf, op.Off)
			if int64(got) != want {
				return hx.Failf("readat-contract", "%s on a view of %d bytes returned n=%d err=%v, want n=%d", what, c.Size, got, rerr, want)
			}
		} else {
			what = fmt.Sprintf("op %d: Seek(%d)+Read(len %d)", i, op.Off, op.N)
			pos, serr := e.Seek(op.Off, io.SeekStart)
			if serr != nil || pos != op.Off {
				return hx.Failf("seek-contract", "%s: Seek returned (%d, %v)", what, pos, serr)
			}
			got, rerr = io.ReadFull(e, buf)
			if int64(got) != want {
				return hx.Failf("read-contract", "%s on a view of %d bytes delivered %d bytes (err=%v), want %d", what, c.Size, got, rerr, want)
			}
		}
		if got > 0 && !match(op.Off, buf[:got]) {
			return hx.Failf("decrypt-bytes", "%s: bytes differ from the reference (sector %d, %s)", what, op.Off/2048, c10GiantWhere(tab, op.Off))
		}
		var ls []string
		s := op.Off / 2048
		if op.Off < c.Size {
			if s >= 1<<31 {
				ls = append(ls, "read at sector >= 2^31")
			}
			if s < 1<<32 && (tab.Encrypted(uint32(s), false) || tab.Encrypted(uint32(s), true)) && s > 1<<20 {
				ls = append(ls, "read inside an encrypted gap beyond sector 2^20")
			}
		} else {
			ls = append(ls, "read behind the end of a multi-GiB view")
		}
		if len(ls) > 0 {
			st.Label(ls...)
			st.NT(fmt.Sprintf("%d|%d|%d|%s", c.Size, op.Off, op.N, op.Kind))
		}
	}
	st.Sample(map[string]any{"size": c.Size, "regions": c.Regions, "clear": c.Clear, "ops": len(c.Ops)})
	return nil
}

func c10GiantWhere(tab refcrypt.Table, off int64) string {
	s := off / 2048
	if s >= 1<<32 {
		return "beyond 32-bit sector numbers"
	}
	return fmt.Sprintf("encrypted(exclusive)=%v encrypted(inclusive)=%v", tab.Encrypted(uint32(s), false), tab.Encrypted(uint32(s), true))
}

func TestC10Giant(t *testing.T) {
	st := hx.NewStats("C10", "giant")
	hx.RunProp(t, st, genC10Giant, runC10Giant, hx.PropOpts{})
}
