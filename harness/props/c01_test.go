package props

import (
	"bytes"
	"fmt"
	"os"
	"path/filepath"
	"strings"
	"testing"
	"unicode/utf16"

	"pgregory.net/rapid"

	"github.com/xakep666/ps3netsrv-go/verif/hx"
)

// ---- C01: root confinement ---------------------------------------------------------------

const c01Marker = "OUTSIDEMARK"

// reserved sizes of outside objects (never used inside the root)
var c01ReservedSizes = []int64{7777, 9091, 12343, 15551}

type c01Case struct {
	RootName   string   `json:"root_name"`
	Tree       *hx.Node `json:"tree"`
	AllowWrite bool     `json:"allow_write"`
	Reqs       []hx.Req `json:"reqs"`
	Target     string   `json:"target"`   // inproc | bin
	Spelling   string   `json:"spelling"` // bin: abs | rel | dot | trailing
	TwoWorld   bool     `json:"two_world"`
}

// buildWorld creates outer/ with the root and the sentinel tree around it.
func buildWorld(c c01Case) (outer, root string, err error) {
	outer, err = hx.Scratch("world")
	if err != nil {
		return
	}
	root = filepath.Join(outer, c.RootName)
	if err = os.Mkdir(root, 0o755); err != nil {
		return
	}
	if err = hx.Materialize(root, c.Tree); err != nil {
		return
	}
	err = buildSentinels(outer, c.RootName)
	return
}

func buildSentinels(outer, rootName string) error {
	mk := func(rel string, size int64) error {
		p := filepath.Join(outer, rel)
		if err := os.MkdirAll(filepath.Dir(p), 0o755); err != nil {
			return err
		}
		unit := []byte(c01Marker + "-" + filepath.Base(rel) + "|")
		b := bytes.Repeat(unit, int(size)/len(unit)+1)[:size]
		return os.WriteFile(p, b, 0o644)
	}
	keyHex := []byte("00112233445566778899aabbccddeeff")
	files := map[string]int64{
		rootName + "-other/" + c01Marker + "_a.txt":    c01ReservedSizes[0],
		rootName + "-other/sub/" + c01Marker + "_b":    c01ReservedSizes[1],
		rootName + "x/" + c01Marker + "_c.bin":         c01ReservedSizes[2],
		rootName + ".bak/" + c01Marker + "_d":          c01ReservedSizes[3],
		"unrelated/" + c01Marker + "_e":                c01ReservedSizes[0],
		c01Marker + "_top.txt":                         c01ReservedSizes[1],
		rootName + "-other/PS3ISO/" + c01Marker + "_g": c01ReservedSizes[2],
		rootName + "-other/GAME/" + c01Marker + "_x":   c01ReservedSizes[3],
	}
	for rel, sz := range files {
		if err := mk(rel, sz); err != nil {
			return err
		}
	}
	for _, rel := range []string{"REDKEY/g.dkey", rootName + "-other/PS3ISO/g.dkey", rootName + "-other/REDKEY/g.dkey", "PS3ISO/g.dkey"} {
		p := filepath.Join(outer, rel)
		if err := os.MkdirAll(filepath.Dir(p), 0o755); err != nil {
			return err
		}
		if err := os.WriteFile(p, keyHex, 0o644); err != nil {
			return err
		}
	}
	// an iso outside with the same name as the one inside
	return mk(rootName+"-other/PS3ISO/g.iso", c01ReservedSizes[0])
}

// sentinelSnapshot: everything in outer except the root's own subtree.
func sentinelSnapshot(outer, rootName string) (map[string]hx.Snap, error) {
	all, err := hx.Snapshot(outer)
	if err != nil {
		return nil, err
	}
	for k := range all {
		if k == rootName || strings.HasPrefix(k, rootName+string(filepath.Separator)) || k == "." {
			delete(all, k)
		}
	}
	return all, nil
}

func c01Tree(t *rapid.T) *hx.Node {
	tree := hx.GenTree(t, hx.TreeOpts{MaxDepth: 2, MaxEntries: 4, MaxTotal: 10, MaxFile: 20000})
	// fixed inhabitants the path generator aims at; the iso carries a valid-looking region table so key lookup is attempted
	iso := make([]byte, 3*2048)
	iso[3] = 2                  // 2 plain regions
	iso[8+3], iso[8+7] = 0, 1   // [0,1]
	iso[16+3], iso[16+7] = 2, 3 // [2,3]  -> sector 1..2 encrypted
	copy(iso[2048:], bytes.Repeat([]byte("inside-iso-data|"), 2048/16*2))
	tree.Children = append(tree.Children,
		hx.Dir("PS3ISO", hx.RawFile("g.iso", iso), hx.Dir("deep", hx.RawFile("g.iso", iso))),
		hx.Dir("GAME", hx.File("X.BIN", 3000, 41), hx.Dir("PS3_GAME", hx.RawFile("PARAM.SFO", sfoBytes([][2]string{{"TITLE_ID", "BLES00001"}})))),
		hx.File("inside.txt", 1234, 42), hx.Dir("sub", hx.File("s.bin", 100, 43), hx.Dir("subsub")),
	)
	return tree
}

// genC01Attack: classic escape shapes, instantiated with the names that exist around the root.
// "{OUTER}" is replaced by the absolute path of the directory holding the root at run time.
func genC01Attack(t *rapid.T, rootName string, l string) string {
	sib := rapid.SampledFrom([]string{rootName + "-other", rootName + "x", rootName + ".bak", "unrelated", ""}).Draw(t, l+"-sib")
	inner := rapid.SampledFrom([]string{"", c01Marker + "_a.txt", "sub/" + c01Marker + "_b", c01Marker + "_c.bin", c01Marker + "_d", c01Marker + "_e", "GAME", "PS3ISO/g.iso", "PS3ISO", "new_" + l}).Draw(t, l+"-inner")
	virt := rapid.SampledFrom([]string{"***DVD***", "***PS3***"}).Draw(t, l+"-virt")
	ups := strings.Repeat("../", rapid.IntRange(1, 4).Draw(t, l+"-ups"))
	tail := sib
	if inner != "" {
		tail = sib + "/" + inner
	}
	if sib == "" {
		tail = rapid.SampledFrom([]string{c01Marker + "_top.txt", "REDKEY/g.dkey", "PS3ISO/g.dkey", ""}).Draw(t, l+"-top")
	}
	switch rapid.IntRange(0, 11).Draw(t, l+"-tpl") {
	case 0:
		return "/" + ups + tail
	case 1:
		return ups + tail
	case 2:
		return "/" + virt + "/" + ups + tail
	case 3:
		return "/" + virt + ups + tail // prefix glued to the dots
	case 4:
		return "/" + virt + "/sub/" + ups + "../" + tail
	case 5:
		return "/PS3ISO/../" + ups + sib + "/PS3ISO/g.iso"
	case 6:
		return "/sub/subsub/" + ups + "../../" + tail
	case 7:
		return "/" + ups + "{OUTER}/" + tail
	case 8:
		return "{OUTER}/" + tail
	case 9:
		return "/" + virt + "/" + ups + "{OUTER}/" + tail
	case 10:
		return "/" + rootName + "/../../" + tail
	default:
		return "/.//" + ups + "/" + tail + "/"
	}
}

// c01Disguise rewrites some ".." components into names that only become ".." if something after the confinement step
// drops or folds a byte (NUL, blanks, control characters, zero-width or full-width forms): as they stand they are
// ordinary (mostly nonexistent) names inside the root.
func c01Disguise(t *rapid.T, p string, l string) string {
	parts := strings.Split(p, "/")
	for i, s := range parts {
		if s != ".." || rapid.IntRange(0, 2).Draw(t, fmt.Sprintf("%s-dg%d", l, i)) == 0 {
			continue
		}
		x := rapid.SampledFrom([]string{"\x00", "\x00", "\x00", " ", "\t", "\r", "\n", "\x7f", "\u200b", "\xc2\xa0"}).Draw(t, fmt.Sprintf("%s-dgb%d", l, i))
		switch rapid.IntRange(0, 3).Draw(t, fmt.Sprintf("%s-dgp%d", l, i)) {
		case 0:
			parts[i] = ".." + x
		case 1:
			parts[i] = "." + x + "."
		case 2:
			parts[i] = x + ".."
		default:
			parts[i] = "\uff0e\uff0e" // full-width dots
		}
	}
	return strings.Join(parts, "/")
}

func genC01Path(t *rapid.T, rootName string, pool hx.PathPool, l string) string {
	p := genC01PathPlain(t, rootName, pool, l)
	if strings.Contains(p, "..") && len(p) < 4096 && rapid.IntRange(0, 5).Draw(t, l+"-disguise") == 0 {
		p = c01Disguise(t, p, l)
	}
	if len(p) < 2048 && rapid.IntRange(0, 5).Draw(t, l+"-pad") == 0 {
		p = c01Pad(t, p, l, false)
	}
	if rapid.IntRange(0, 11).Draw(t, l+"-longescape") == 0 {
		// directed: exactly one step above the root, into a sibling (the only escape a prefix test on the joined path
		// would let through), spelled longer than PATH_MAX
		sib := rapid.SampledFrom([]string{rootName + "-other", rootName + "x", rootName + ".bak"}).Draw(t, l+"-le-sib")
		inner := rapid.SampledFrom([]string{c01Marker + "_a.txt", "sub/" + c01Marker + "_b", c01Marker + "_c.bin", "PS3ISO/g.iso", "new_" + l, ""}).Draw(t, l+"-le-inner")
		start := rapid.SampledFrom([]string{"/../", "../", "/sub/../../", "/PS3ISO/../../"}).Draw(t, l+"-le-start")
		p = c01Pad(t, start+sib+"/"+inner, l+"-le", true)
	}
	return p
}

// c01Pad stretches a path with elements that vanish lexically ("./", doubled separators, "x/../") to a length at or next
// to the limits names and paths have (NAME_MAX, PATH_MAX, the 16-bit length field): the same place, spelled long - for
// code that treats long names differently from short ones.
func c01Pad(t *rapid.T, p string, l string, long bool) string {
	unit := rapid.SampledFrom([]string{"./", "/", "sub/../", "nonexistent/../", "././/"}).Draw(t, l+"-padunit")
	target := rapid.SampledFrom([]int{255, 256, 1023, 1025, 4095, 4096, 4097, 4200, 8192, 32768, 65535}).Draw(t, l+"-padlen")
	if long && target < 4097 {
		target = 4097 + target
	}
	if strings.Contains(p, "{OUTER}") && target > 60000 {
		target = 60000 // the placeholder grows when it is replaced by the real path
	}
	lead := ""
	if strings.HasPrefix(p, "/") {
		lead, p = "/", p[1:]
	}
	n := (target - len(lead) - len(p) - 1) / len(unit)
	if n < 1 {
		return lead + p
	}
	out := lead + strings.Repeat(unit, n) + p
	if unit == "/" && lead == "" {
		out = "/" + out // a relative path must not become "//..." by accident: keep it rooted explicitly
	}
	return out
}

func genC01PathPlain(t *rapid.T, rootName string, pool hx.PathPool, l string) string {
	if rapid.IntRange(0, 4).Draw(t, l+"-attack") == 0 {
		return genC01Attack(t, rootName, l)
	}
	segs := []string{"..", "..", "..", ".", "", rootName, rootName + "-other", rootName + "x", rootName + ".bak", "unrelated", "PS3ISO", "REDKEY", "GAME", "sub", "subsub",
		"inside.txt", "g.iso", "g.dkey", "X.BIN", c01Marker + "_a.txt", c01Marker + "_top.txt", c01Marker + "_g", "***DVD***", "***PS3***", "CLOSEFILE", "deep", "new_" + l}
	n := rapid.IntRange(1, 7).Draw(t, l+"-nseg")
	var parts []string
	for i := 0; i < n; i++ {
		k := rapid.IntRange(0, 19).Draw(t, fmt.Sprintf("%s-k%d", l, i))
		switch {
		case k < 14:
			parts = append(parts, rapid.SampledFrom(segs).Draw(t, fmt.Sprintf("%s-s%d", l, i)))
		case k < 16 && len(pool.Dirs)+len(pool.Files) > 0:
			all := append(append([]string{}, pool.Dirs...), pool.Files...)
			parts = append(parts, rapid.SampledFrom(all).Draw(t, fmt.Sprintf("%s-in%d", l, i)))
		case k == 16:
			parts = append(parts, strings.Repeat("L", 255))
		case k == 17:
			parts = append(parts, "nul\x00seg")
		case k == 18:
			parts = append(parts, "..", "..", "..", "..")
		default:
			parts = append(parts, rapid.SampledFrom([]string{"..\\..", "a\\b", "....", ". .", "..;", "%2e%2e"}).Draw(t, fmt.Sprintf("%s-odd%d", l, i)))
		}
	}
	sep := "/"
	if rapid.IntRange(0, 9).Draw(t, l+"-dbl") == 0 {
		sep = "//"
	}
	// sometimes two neighbouring segments are glued together without a separator ("***DVD***..", "root-other..")
	if len(parts) >= 2 && rapid.IntRange(0, 5).Draw(t, l+"-glue") == 0 {
		i := rapid.IntRange(0, len(parts)-2).Draw(t, l+"-gluepos")
		parts = append(append(append([]string{}, parts[:i]...), parts[i]+parts[i+1]), parts[i+2:]...)
	}
	p := strings.Join(parts, sep)
	switch rapid.IntRange(0, 5).Draw(t, l+"-lead") {
	case 0:
	case 1:
		p = "/" + p + "/"
	case 2:
		p = "/***DVD***" + rapid.SampledFrom([]string{"/", "/", "/", ""}).Draw(t, l+"-vsep") + p
	case 3:
		p = "/***PS3***" + rapid.SampledFrom([]string{"/", "/", "/", ""}).Draw(t, l+"-vsep") + p
	default:
		p = "/" + p
	}
	if rapid.IntRange(0, 60).Draw(t, l+"-huge") == 0 {
		p = "/" + strings.Repeat("../", 20000) + rootName + "-other/" + c01Marker + "_a.txt"
	}
	if len(p) > 65535 {
		p = p[:65535]
	}
	return p
}

func genC01(t *rapid.T) c01Case {
	c := c01Case{RootName: rapid.SampledFrom([]string{"root", "r", "data.d", "Games"}).Draw(t, "rootname"), Tree: c01Tree(t),
		AllowWrite: rapid.Bool().Draw(t, "allow_write"), Target: "inproc"}
	pool := hx.PoolOf(c.Tree)
	n := rapid.IntRange(1, 14).Draw(t, "nreq")
	for i := 0; i < n; i++ {
		l := fmt.Sprintf("r%d", i)
		if rapid.IntRange(0, 5).Draw(t, l+"-hist") == 0 {
			// history: state-changing requests in between
			c.Reqs = append(c.Reqs, hx.Req{Op: rapid.SampledFrom([]string{"READ_DIR", "READ_ENTRY", "READ_ENTRY2"}).Draw(t, l+"-h")})
			continue
		}
		op := rapid.SampledFrom(hx.PathOps).Draw(t, l+"-op")
		c.Reqs = append(c.Reqs, hx.Req{Op: op, Path: hx.BStr(genC01Path(t, c.RootName, pool, l))})
		switch op {
		case "OPEN_FILE":
			if rapid.Bool().Draw(t, l+"-read") {
				c.Reqs = append(c.Reqs, hx.Req{Op: "READ_FILE", N: 30000, Off: 0})
			}
		case "OPEN_DIR":
			c.Reqs = append(c.Reqs, hx.Req{Op: "READ_DIR"})
		case "CREATE":
			c.Reqs = append(c.Reqs, hx.Req{Op: "WRITE", N: 33, Seed: 5})
		}
	}
	if c.AllowWrite && rapid.IntRange(0, 5).Draw(t, "empty-root") == 0 {
		// an empty (or emptied) root: requests that clamp to "/" then name the root itself, whose entry lives outside
		c.Tree = hx.Dir("")
		c.Reqs = c.Reqs[:min(len(c.Reqs), 4)]
		for i, n := 0, rapid.IntRange(1, 5).Draw(t, "rootops"); i < n; i++ {
			l := fmt.Sprintf("ro%d", i)
			p := rapid.SampledFrom([]string{"", "/", "/..", "/../..", "..", "/./", "/sub/../..", "//", "/" + c.RootName + "/../.."}).Draw(t, l+"-p")
			op := rapid.SampledFrom([]string{"RMDIR", "RMDIR", "DELETE", "CREATE", "MKDIR", "STAT", "OPEN_DIR"}).Draw(t, l+"-op")
			c.Reqs = append(c.Reqs, hx.Req{Op: op, Path: hx.BStr(p)})
			if op == "CREATE" {
				c.Reqs = append(c.Reqs, hx.Req{Op: "WRITE", N: 20, Seed: 6})
			}
		}
	}
	c.TwoWorld = !c.AllowWrite && rapid.IntRange(0, 2).Draw(t, "two_world") == 0
	return c
}

func utf16be(s string) []byte {
	u := utf16.Encode([]rune(s))
	out := make([]byte, 0, 2*len(u))
	for _, x := range u {
		out = append(out, byte(x>>8), byte(x))
	}
	return out
}

func c01MarkerScan(recv []byte, allowWrite bool) error {
	// outside file content carries "OUTSIDEMARK-", outside names "OUTSIDEMARK_". With writing enabled a
	// client may legitimately create objects inside the root whose names contain the marker word, so
	// names are then judged by the listing model only.
	pats := []string{c01Marker + "-"}
	if !allowWrite {
		pats = append(pats, c01Marker)
	}
	for _, p := range pats {
		if i := bytes.Index(recv, []byte(p)); i >= 0 {
			return hx.Failf("no-outside-bytes", "reply stream contains the outside marker at +%d: %q", i, recv[max(0, i-20):min(len(recv), i+60)])
		}
		if i := bytes.Index(recv, utf16be(p)); i >= 0 {
			return hx.Failf("no-outside-bytes", "reply stream contains the outside marker (UTF-16BE) at +%d", i)
		}
	}
	return nil
}

func c01Classify(c c01Case, st *hx.Stats) {
	m := hx.NewModel("/nonexistent", false)
	for _, r := range c.Reqs {
		if r.Path == "" && r.Op != "OPEN_DIR" {
			continue
		}
		_, cleaned, esc := m.Resolve(string(r.Path))
		p := string(r.Path)
		var shape []string
		if len(p) > 4096 && len(cleaned) < 1024 {
			shape = append(shape, "longer than PATH_MAX as sent, short once cleaned")
		}
		if esc {
			shape = append(shape, "leaves-root")
		}
		if strings.Contains(p, "\x00") {
			shape = append(shape, "NUL")
		}
		if len(p) > 4096 {
			shape = append(shape, "overlong")
		}
		if strings.Contains(p, "//") {
			shape = append(shape, "doubled-separator")
		}
		if strings.Contains(p, "***") {
			shape = append(shape, "virtual-prefix")
		}
		if strings.Contains(p, c.RootName+"-other") || strings.Contains(p, c.RootName+"x") || strings.Contains(p, c.RootName+".bak") {
			shape = append(shape, "names-prefix-sibling")
		}
		for _, s := range shape {
			st.Label("path: " + s)
		}
		if len(shape) > 0 {
			st.NT(fmt.Sprintf("%s|%s|%v|%s|%s", r.Op, strings.Join(shape, "+"), c.AllowWrite, c.Target+c.Spelling, p))
		}
	}
	st.Label("target="+c.Target+c.Spelling, fmt.Sprintf("allow_write=%v", c.AllowWrite))
	st.Sample(map[string]any{"root": c.RootName, "allow_write": c.AllowWrite, "target": c.Target + c.Spelling, "reqs": reqStrings(c.Reqs[:min(len(c.Reqs), 10)])})
}

// c01Play runs the requests once against addr with the model; returns raw per-request replies.
func c01Play(addr, root string, c c01Case, st *hx.Stats) (*hx.Model, []byte, error) {
	conn, err := hx.Dial(addr)
	if err != nil {
		return nil, nil, err
	}
	defer conn.Close()
	conn.KeepRecv = true
	m := hx.NewModel(root, c.AllowWrite)
	m.St = st
	m.RecordReplies = true
	for i, r := range c.Reqs {
		if m.Ended {
			break
		}
		if err := m.Step(conn, r); err != nil {
			if f, ok := err.(*hx.Fail); ok {
				return m, conn.Recv, &hx.Fail{Clause: f.Clause, Msg: fmt.Sprintf("request #%d: %s [trace: %s]", i, f.Msg, m.Dump())}
			}
			return m, conn.Recv, fmt.Errorf("request #%d: %w [trace: %s]", i, err, m.Dump())
		}
	}
	if !m.Ended {
		if err := conn.ExpectEnd(); err != nil {
			return m, conn.Recv, err
		}
	}
	return m, conn.Recv, nil
}

func runC01(c c01Case, st *hx.Stats) error {
	c01Classify(c, st)
	err := runC01Once(c, st)
	if err != nil && strings.Contains(err.Error(), hx.ErrTimeout.Error()) {
		err2 := runC01Once(c, nil)
		if err2 != nil && strings.Contains(err2.Error(), hx.ErrTimeout.Error()) {
			return hx.Failf("reply-missing", "no complete reply, twice: %v", err2)
		}
		st.Inconcl()
		return err2
	}
	return err
}

func runC01Once(c c01Case, st *hx.Stats) error {
	outer, root, err := buildWorld(c)
	if outer != "" {
		defer os.RemoveAll(outer)
	}
	if err != nil {
		return err
	}
	var tg *hx.Target
	switch c.Target {
	case "bin":
		dir := outer
		arg := root
		switch c.Spelling {
		case "rel":
			arg = c.RootName
		case "dot":
			dir, arg = root, ""
		case "dotslash":
			arg = "./" + c.RootName + "/"
		case "trailing":
			arg = root + "/"
		case "updown":
			arg = outer + "/unrelated/../" + c.RootName // as written (filepath.Join would tidy it up)
		case "linkup":
			// ".." behind a symlink: the system resolves it to the link target's parent, tidying the text up first
			// names another place. The root is the directory the operator's shell would enter with this spelling.
			if err := os.Symlink(root, filepath.Join(outer, "unrelated", "via")); err != nil {
				return err
			}
			arg = outer + "/unrelated/via/../" + c.RootName
		}
		var extra []string
		if c.AllowWrite {
			extra = append(extra, "--allow-write")
		}
		b, err := hx.StartServerBin(arg, extra, nil, dir)
		if err != nil {
			return err
		}
		tg = hx.NewTarget(b.Addr, b.Kill)
	default:
		tg, err = hx.StartInproc(root, hx.InprocOpts{AllowWrite: c.AllowWrite})
		if err != nil {
			return err
		}
	}
	defer tg.Close()
	rootBefore, err := os.Lstat(root)
	if err != nil {
		return err
	}
	before, err := sentinelSnapshot(outer, c.RootName)
	if err != nil {
		return err
	}
	// instantiate absolute-path injections with this world's location
	c.Reqs = append([]hx.Req{}, c.Reqs...)
	for i := range c.Reqs {
		if strings.Contains(string(c.Reqs[i].Path), "{OUTER}") {
			c.Reqs[i].Path = hx.BStr(strings.ReplaceAll(string(c.Reqs[i].Path), "{OUTER}", strings.TrimPrefix(outer, "/")))
		}
	}
	_, recv, err := c01Play(tg.Addr, root, c, st)
	if err != nil {
		return err
	}
	if err := c01MarkerScan(recv, c.AllowWrite); err != nil {
		return err
	}
	after, err := sentinelSnapshot(outer, c.RootName)
	if err != nil {
		return err
	}
	if d := hx.DiffSnap(before, after, false); d != "" {
		return hx.Failf("outside-untouched", "objects outside the root changed: %s", d)
	}
	// the root's own entry lives in its parent directory, i.e. outside: it must still be the same directory
	if fi, err := os.Lstat(root); err != nil || !fi.IsDir() || !os.SameFile(fi, rootBefore) {
		return hx.Failf("outside-untouched", "the root's own entry in its parent directory was removed or replaced (now: %v, err=%v)", fi != nil && fi.IsDir(), err)
	}
	if c.TwoWorld && !c.AllowWrite {
		// metamorphic: the same session with the outside emptied must give the same reply stream
		mA, _, err := c01Play(tg.Addr, root, c, nil) // access times are settled after the first pass
		if err != nil {
			return err
		}
		ents, _ := os.ReadDir(outer)
		for _, e := range ents {
			if e.Name() != c.RootName {
				os.RemoveAll(filepath.Join(outer, e.Name()))
			}
		}
		mB, _, err := c01Play(tg.Addr, root, c, nil)
		if err != nil {
			return hx.Failf("independent-of-outside", "with the outside emptied the session fails the model: %v", err)
		}
		if len(mA.Replies) != len(mB.Replies) {
			return hx.Failf("independent-of-outside", "reply count differs: %d with outside objects, %d without", len(mA.Replies), len(mB.Replies))
		}
		for i := range mA.Replies {
			a, b := mA.Replies[i], mB.Replies[i]
			if mA.ReplyImage[i] {
				continue // image bytes carry creation timestamps
			}
			if c.Reqs[i].Op == "OPEN_FILE" && strings.Contains(string(c.Reqs[i].Path), "***") && len(a) == 16 && len(b) == 16 {
				a, b = a[:8], b[:8] // image mtime = time of opening
			}
			if !bytes.Equal(a, b) {
				return hx.Failf("independent-of-outside", "reply to request #%d %s differs when the outside is emptied: %x vs %x", i, c.Reqs[i], head2(a, 48), head2(b, 48))
			}
		}
		if st != nil {
			st.Label("two-world comparison done")
		}
	}
	return nil
}

func head2(b []byte, n int) []byte {
	if len(b) > n {
		return b[:n]
	}
	return b
}

func TestC01Inproc(t *testing.T) {
	st := hx.NewStats("C01", "inproc")
	hx.RunProp(t, st, genC01, runC01, hx.PropOpts{WriteAhead: true})
}

func TestC01Bin(t *testing.T) {
	st := hx.NewStats("C01", "bin")
	hx.RunProp(t, st, func(t *rapid.T) c01Case {
		c := genC01(t)
		c.Target = "bin"
		c.Spelling = rapid.SampledFrom([]string{"abs", "rel", "dot", "dotslash", "trailing", "updown", "linkup"}).Draw(t, "spelling")
		// more requests per server start
		pool := hx.PoolOf(c.Tree)
		for i := 0; i < 20; i++ {
			l := fmt.Sprintf("x%d", i)
			c.Reqs = append(c.Reqs, hx.Req{Op: rapid.SampledFrom(hx.PathOps).Draw(t, l+"-op"), Path: hx.BStr(genC01Path(t, c.RootName, pool, l))})
		}
		return c
	}, runC01, hx.PropOpts{})
}
