package props

import (
	"bytes"
	"fmt"
	"os"
	"os/exec"
	"path/filepath"
	"strings"
	"sync"
	"testing"
	"time"

	"pgregory.net/rapid"

	pfs "github.com/xakep666/ps3netsrv-go/pkg/fs"
	"github.com/xakep666/ps3netsrv-go/verif/hx"
)

// ---- C18: re-opening an unchanged directory yields the same layout -----------------

// fetchImage obtains the full image of fx's tree by one route. (nil, nil) = creation failed with an error.
func fetchImage(fx *isoFixture, ps3 bool, route string) ([]byte, error) {
	return fetchImageSpelled(fx, ps3, route, "")
}

// fetchImageSpelled: spell is appended to the directory's path as the caller writes it ("/", "/.", "//": the same
// directory, spelled the way shell completion or a careless client spells it).
func fetchImageSpelled(fx *isoFixture, ps3 bool, route, spell string) ([]byte, error) {
	switch route {
	case "lib":
		viso, err := pfs.NewVirtualISO(fx.Fs, fx.Root+spell, ps3)
		if err != nil {
			return nil, nil
		}
		defer viso.Close()
		img, err := readAllAligned(viso, 64*1024, 512<<20)
		if err != nil {
			return nil, hx.Failf("sequential-read", "sequential read failed at %d: %v", len(img), err)
		}
		return img, nil
	case "net":
		tg, err := hx.StartInproc(fx.Tmp, hx.InprocOpts{})
		if err != nil {
			return nil, err
		}
		defer tg.Close()
		return fetchImageNet(tg.Addr, fx.Root+spell, ps3)
	case "makeiso":
		out, err := os.CreateTemp(fx.Tmp, "mk*.iso")
		if err != nil {
			return nil, err
		}
		name := out.Name()
		out.Close()
		os.Remove(name)
		defer os.Remove(name)
		args := []string{"make-iso"}
		if ps3 {
			args = append(args, "--ps3-mode")
		}
		args = append(args, filepath.Join(fx.Tmp, strings.TrimPrefix(fx.Root, "/"))+spell, name)
		cmd := exec.Command(hx.BinPath(), args...)
		cmd.Env = []string{"PATH=/usr/bin:/bin", "HOME=/nonexistent-home"}
		cmd.Dir = fx.Tmp
		ob, err := combinedOutputBounded(cmd)
		if f, ok := err.(*hx.Fail); ok {
			return nil, f
		}
		if err != nil {
			if strings.Contains(string(ob), "panic:") || strings.Contains(string(ob), "goroutine ") {
				return nil, hx.Failf("no-panic", "make-iso crashed: %s", head(string(ob), 1500))
			}
			return nil, nil
		}
		return os.ReadFile(name)
	}
	return nil, fmt.Errorf("bad route %s", route)
}

func fetchImageNet(addr, root string, ps3 bool) ([]byte, error) {
	conn, err := hx.Dial(addr)
	if err != nil {
		return nil, err
	}
	defer conn.Close()
	prefix := "/***DVD***"
	if ps3 {
		prefix = "/***PS3***"
	}
	if err := conn.Send(hx.Req{Op: "OPEN_FILE", Path: hx.BStr(prefix + root)}.Encode()); err != nil {
		return nil, err
	}
	rep, closed, err := conn.ReadN(16)
	if err != nil || closed {
		return nil, hx.Failf("reply-layout", "OPEN_FILE of the image: closed=%v err=%v", closed, err)
	}
	var size int64
	for _, b := range rep[:8] {
		size = size<<8 | int64(b)
	}
	if size < 0 {
		return nil, nil
	}
	if size > 512<<20 {
		return nil, fmt.Errorf("image too large for the net route: %d", size)
	}
	img := make([]byte, 0, size)
	for off := int64(0); off < size; {
		n := int64(1 << 20)
		if n > size-off {
			n = size - off
		}
		if err := conn.Send(hx.Req{Op: "READ_CRIT", N: uint32(n), Off: uint64(off)}.Encode()); err != nil {
			return nil, hx.Failf("transport", "send: %v", err)
		}
		b, closed, err := conn.ReadN(int(n))
		if err != nil || closed {
			return nil, hx.Failf("read-bytes", "critical read of image [%d,+%d) ended early: got %d closed=%v err=%v", off, n, len(b), closed, err)
		}
		img = append(img, b...)
		off += n
	}
	return img, nil
}

// maskImage zeroes exactly the fields C18 allows to vary.
func maskImage(img []byte, ps3 bool) []byte {
	out := append([]byte(nil), img...)
	for _, s := range []int{16, 17} {
		if len(out) >= (s+1)*2048 {
			for i := 813; i <= 846; i++ {
				out[s*2048+i] = 0
			}
		}
	}
	if ps3 && len(out) >= 2*2048 {
		for i := 64; i < 512; i++ {
			out[2048+i] = 0
		}
	}
	return out
}

func diffImages(a, b []byte, ps3 bool) string {
	if len(a) != len(b) {
		return fmt.Sprintf("sizes differ: %d vs %d", len(a), len(b))
	}
	ma, mb := maskImage(a, ps3), maskImage(b, ps3)
	if bytes.Equal(ma, mb) {
		return ""
	}
	for i := range ma {
		if ma[i] != mb[i] {
			return fmt.Sprintf("bytes differ first at offset %d (sector %d + %d)", i, i/2048, i%2048)
		}
	}
	return ""
}

type c18Case struct {
	Tree       *hx.Node `json:"tree"`
	PS3        bool     `json:"ps3"`
	TitleID    string   `json:"title_id,omitempty"`
	RootName   string   `json:"root_name"`
	Routes     []string `json:"routes"`
	Spellings  []string `json:"spellings,omitempty"` // per open: suffix to the directory path as written
	Concurrent bool     `json:"concurrent"`
	// DelayMs: pause between successive opens ("again - later": opens in different wall-clock seconds)
	DelayMs int `json:"delay_ms,omitempty"`
	// FutureMTimes: some objects carry modification times in the future (clock skew is a real-life thing)
	FutureMTimes bool `json:"future_mtimes,omitempty"`
}

func (c c18Case) spelling(i int) string {
	if i < len(c.Spellings) {
		return c.Spellings[i]
	}
	return ""
}

func genC18(t *rapid.T) c18Case {
	base := genC08(t)
	if rapid.Bool().Draw(t, "portable-only") {
		base = genC07(t)
	}
	c := c18Case{Tree: base.Tree, PS3: base.PS3, TitleID: base.TitleID, RootName: base.RootName}
	n := rapid.IntRange(2, 6).Draw(t, "opens")
	for i := 0; i < n; i++ {
		c.Routes = append(c.Routes, rapid.SampledFrom([]string{"lib", "lib", "net", "makeiso"}).Draw(t, fmt.Sprintf("route%d", i)))
		c.Spellings = append(c.Spellings, rapid.SampledFrom([]string{"", "", "", "/", "/.", "//", "/./"}).Draw(t, fmt.Sprintf("spell%d", i)))
	}
	c.Concurrent = rapid.Bool().Draw(t, "concurrent")
	if !c.Concurrent && rapid.IntRange(0, 5).Draw(t, "delayed") == 0 {
		c.DelayMs = 1100
		if len(c.Routes) > 3 {
			c.Routes = c.Routes[:3]
		}
	}
	if rapid.IntRange(0, 2).Draw(t, "future") == 0 {
		c.FutureMTimes = true
		i := 0
		c.Tree.Walk(func(rel string, n *hx.Node) {
			i++
			if rel != "" && n.Kind != "symlink" && i%2 == 0 {
				n.MTime = 4102444800 + int64(i) // year 2100
			}
		})
	}
	return c
}

func runC18(c c18Case, st *hx.Stats) error {
	tree := c.Tree
	if c.PS3 {
		tree = withPS3(tree, c.TitleID, nil)
	}
	fx, err := newIsoFixtureNamed(tree, c.RootName)
	if err != nil {
		return err
	}
	defer fx.Close()
	imgs := make([][]byte, len(c.Routes))
	errs := make([]error, len(c.Routes))
	if c.Concurrent {
		var wg sync.WaitGroup
		for i, r := range c.Routes {
			wg.Add(1)
			go func(i int, r string) {
				defer wg.Done()
				errs[i] = hx.SafeRun(func() error {
					var e error
					imgs[i], e = fetchImageSpelled(fx, c.PS3, r, c.spelling(i))
					return e
				})
			}(i, r)
		}
		wg.Wait()
	} else {
		for i, r := range c.Routes {
			if i > 0 && c.DelayMs > 0 {
				time.Sleep(time.Duration(c.DelayMs) * time.Millisecond)
			}
			imgs[i], errs[i] = fetchImageSpelled(fx, c.PS3, r, c.spelling(i))
		}
	}
	for _, e := range errs {
		if e != nil {
			return e
		}
	}
	files, dirs, _, _, _, _ := treeStats(c.Tree)
	routes := map[string]bool{}
	for _, r := range c.Routes {
		routes[r] = true
	}
	if c.DelayMs > 0 {
		st.Label("opens in different wall-clock seconds")
	}
	for i := range c.Routes {
		if c.spelling(i) != "" {
			st.Label("directory path spelled with a trailing separator or dot")
			break
		}
	}
	if c.FutureMTimes {
		st.Label("tree with modification times in the future")
	}
	st.Label(fmt.Sprintf("concurrent=%v", c.Concurrent), fmt.Sprintf("ps3=%v", c.PS3), fmt.Sprintf("distinct routes=%d", len(routes)))
	if imgs[0] == nil {
		for i := range imgs {
			if imgs[i] != nil {
				return hx.Failf("same-outcome", "open #0 (%s) failed to create the image but open #%d (%s) succeeded", c.Routes[0], i, c.Routes[i])
			}
		}
		st.Label("image creation returned an error (consistently)")
		return nil
	}
	if dirs >= 2 && files >= 3 && len(routes) >= 2 {
		st.NT(fmt.Sprintf("%v|%v|%s|%s", c.PS3, c.Concurrent, strings.Join(c.Routes, ","), treeKey(c.Tree)))
	}
	st.Sample(map[string]any{"routes": c.Routes, "concurrent": c.Concurrent, "ps3": c.PS3, "files": files, "dirs": dirs, "image_bytes": len(imgs[0])})
	for i := 1; i < len(imgs); i++ {
		if imgs[i] == nil {
			return hx.Failf("same-outcome", "open #0 (%s) produced an image but open #%d (%s) failed", c.Routes[0], i, c.Routes[i])
		}
		if d := diffImages(imgs[0], imgs[i], c.PS3); d != "" {
			return hx.Failf("same-layout", "open #0 (%s) vs open #%d (%s): %s", c.Routes[0], i, c.Routes[i], d)
		}
	}
	return nil
}

func TestC18Reopen(t *testing.T) {
	st := hx.NewStats("C18", "reopen")
	hx.RunProp(t, st, genC18, runC18, hx.PropOpts{WriteAhead: true})
}

// ---- C18 same-server unit: several connections of ONE server open the same image at the same instant ------------
//
// The other unit starts a server per open; here the opens share the server (and whatever it caches or coalesces):
// all clients connect, a barrier releases their OPEN_FILE requests together, then they read the whole image
// concurrently, in small chunks by absolute offset, each starting at a different place. Every client must see the
// image a lone client saw before.

type c18SameCase struct {
	Tree     *hx.Node `json:"tree"`
	PS3      bool     `json:"ps3"`
	TitleID  string   `json:"title_id,omitempty"`
	RootName string   `json:"root_name"`
	Clients  int      `json:"clients"`
	Chunk    int      `json:"chunk"`
	Rounds   int      `json:"rounds"`
	Critical bool     `json:"critical"`
}

func genC18Same(t *rapid.T) c18SameCase {
	base := genC07(t)
	c := c18SameCase{Tree: base.Tree, PS3: base.PS3, TitleID: base.TitleID, RootName: base.RootName,
		Clients: rapid.SampledFrom([]int{2, 3, 4, 6, 8}).Draw(t, "clients"), Chunk: rapid.SampledFrom([]int{2048, 4096, 4096, 65536, 1 << 20}).Draw(t, "chunk"),
		Rounds: rapid.IntRange(1, 3).Draw(t, "rounds"), Critical: rapid.Bool().Draw(t, "critical")}
	// builds that take a while (hundreds of directories) and a data area worth reading (one file of some MiB)
	if rapid.IntRange(0, 2).Draw(t, "slow-build") > 0 {
		many := hx.Dir("MANYDIRS")
		for i, n := 0, rapid.IntRange(150, 400).Draw(t, "manydirs"); i < n; i++ {
			many.Children = append(many.Children, hx.Dir(fmt.Sprintf("D%04d", i)))
		}
		c.Tree.Children = append(c.Tree.Children, many)
	}
	if rapid.IntRange(0, 2).Draw(t, "big-file") > 0 {
		c.Tree.Children = append(c.Tree.Children, hx.File("BIGDATA.BIN", int64(rapid.IntRange(1, 6).Draw(t, "big-mib"))<<20+int64(rapid.IntRange(0, 4095).Draw(t, "big-tail")), 4242))
	}
	return c
}

func runC18Same(c c18SameCase, st *hx.Stats) error {
	tree := c.Tree
	if c.PS3 {
		tree = withPS3(tree, c.TitleID, nil)
	}
	fx, err := newIsoFixtureNamed(tree, c.RootName)
	if err != nil {
		return err
	}
	defer fx.Close()
	tg, err := hx.StartInproc(fx.Tmp, hx.InprocOpts{})
	if err != nil {
		return err
	}
	defer tg.Close()
	ref, err := fetchImageNet(tg.Addr, fx.Root, c.PS3)
	if err != nil {
		return err
	}
	if ref == nil {
		st.Label("image creation returned an error")
		return nil
	}
	prefix := "/***DVD***"
	if c.PS3 {
		prefix = "/***PS3***"
	}
	refMasked := maskImage(ref, c.PS3)
	op := "READ_FILE"
	if c.Critical {
		op = "READ_CRIT"
	}
	for round := 0; round < c.Rounds; round++ {
		conns := make([]*hx.Conn, c.Clients)
		for i := range conns {
			if conns[i], err = hx.Dial(tg.Addr); err != nil {
				return err
			}
			defer conns[i].Close()
		}
		start := make(chan struct{})
		errs := make([]error, c.Clients)
		var wg sync.WaitGroup
		for i := range conns {
			wg.Add(1)
			go func(i int) {
				defer wg.Done()
				conn := conns[i]
				<-start
				errs[i] = func() error {
					if err := conn.Send(hx.Req{Op: "OPEN_FILE", Path: hx.BStr(prefix + fx.Root)}.Encode()); err != nil {
						return err
					}
					rep, closed, err := conn.ReadN(16)
					if err != nil {
						return err
					}
					if closed {
						return hx.Failf("reply-layout", "client %d: OPEN_FILE of the image ended the connection", i)
					}
					var size int64
					for _, b := range rep[:8] {
						size = size<<8 | int64(b)
					}
					if size != int64(len(ref)) {
						return hx.Failf("same-size", "client %d of %d opening together: announced size %d, a lone client saw %d", i, c.Clients, size, len(ref))
					}
					nchunks := (len(ref) + c.Chunk - 1) / c.Chunk
					for k := 0; k < nchunks; k++ {
						j := (k + i*nchunks/c.Clients) % nchunks // every client starts somewhere else
						off := j * c.Chunk
						n := min(c.Chunk, len(ref)-off)
						if err := conn.Send(hx.Req{Op: op, N: uint32(n), Off: uint64(off)}.Encode()); err != nil {
							return hx.Failf("transport", "client %d: send: %v", i, err)
						}
						if !c.Critical {
							h, closed, err := conn.ReadN(4)
							if err != nil {
								return err
							}
							if closed || int(h[0])<<24|int(h[1])<<16|int(h[2])<<8|int(h[3]) != n {
								return hx.Failf("read-bytes", "client %d of %d: READ_FILE(n=%d, off=%d) of the image announced %x (closed=%v)", i, c.Clients, n, off, h, closed)
							}
						}
						b, closed, err := conn.ReadN(n)
						if err != nil {
							return err
						}
						if closed {
							return hx.Failf("read-bytes", "client %d of %d: read of image [%d,+%d) ended the connection after %d bytes", i, c.Clients, off, n, len(b))
						}
						got := b
						if off < 18*2048 {
							// the chunk overlaps the fields that may vary: compare masked
							tmp := append(append([]byte(nil), ref[:off]...), b...)
							tmp = append(tmp, ref[off+n:]...)
							got = maskImage(tmp, c.PS3)[off : off+n]
						}
						if !bytes.Equal(got, refMasked[off:off+n]) {
							d := 0
							for d < n && got[d] == refMasked[off+d] {
								d++
							}
							return hx.Failf("same-layout", "client %d of %d opening and reading together (chunk %d): bytes at image offset %d differ from what a lone client saw", i, c.Clients, c.Chunk, off+d)
						}
					}
					return nil
				}()
			}(i)
		}
		close(start)
		wg.Wait()
		for _, e := range errs {
			if e != nil {
				return e
			}
		}
		for _, cn := range conns {
			cn.Close()
		}
	}
	files, dirs, _, _, _, _ := treeStats(c.Tree)
	st.Label(fmt.Sprintf("clients=%d", c.Clients), fmt.Sprintf("chunk=%d", c.Chunk), fmt.Sprintf("ps3=%v", c.PS3))
	if dirs >= 100 {
		st.Label("build takes milliseconds (>= 100 directories)")
	}
	if len(ref) >= 1<<20 {
		st.Label("image >= 1 MiB")
	}
	if files >= 1 && len(ref) > 64*1024 {
		st.NT(fmt.Sprintf("%d|%d|%v|%v|%s", c.Clients, c.Chunk, c.PS3, c.Critical, treeKey(c.Tree)))
	}
	st.Sample(map[string]any{"clients": c.Clients, "chunk": c.Chunk, "rounds": c.Rounds, "image_bytes": len(ref), "dirs": dirs, "files": files, "critical": c.Critical})
	return nil
}

func TestC18SameServer(t *testing.T) {
	st := hx.NewStats("C18", "same-server")
	hx.RunProp(t, st, genC18Same, runC18Same, hx.PropOpts{WriteAhead: true})
}
