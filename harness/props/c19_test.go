package props

import (
	"encoding/json"
	"fmt"
	"io"
	"net"
	"net/http"
	"os"
	"os/user"
	"path/filepath"
	"strings"
	"testing"
	"time"

	"github.com/xakep666/ps3netsrv-go/verif/hx"
)

// ---- C19: every setting works via flag, environment and INI file; flags win ---------------

var c19Settings = []string{"root", "listen-addr", "allow-write", "client-whitelist", "max-clients", "read-timeout", "debug", "json-log", "debug-server-listen-addr"}
var c19Channels = []string{"flag", "env", "config-flag", "config-env", "cwd-ini", "user-ini", "xdg-ini"}
var c19Security = map[string]bool{"client-whitelist": true, "max-clients": true, "root": true, "read-timeout": true}

type c19Assign struct {
	Channel string `json:"channel"`
	Value   string `json:"value"` // A | B | bad
}

type c19Case struct {
	Setting string      `json:"setting"`
	Assigns []c19Assign `json:"assigns"`
}

type c19World struct {
	tmp, rootA, rootB, cwd, home, xdg string
	portA, portB, dbgA, dbgB          int
}

func (w *c19World) value(setting, v string) string {
	pick := func(a, b, bad string) string {
		switch v {
		case "A":
			return a
		case "B":
			return b
		case "empty":
			return ""
		case "file-missing", "file-broken", "file-utf16", "file-unreadable":
			return a // the value is fine, the file is not
		case "bad2":
			// a second malformed form per security-relevant setting
			switch setting {
			case "root":
				return filepath.Join(w.rootA, "markerA") // exists, but is a regular file
			case "client-whitelist":
				return "300.1.1.1"
			case "max-clients":
				return "1.5"
			case "read-timeout":
				return "10" // a number without unit is no duration
			}
		}
		return bad
	}
	switch setting {
	case "root":
		return pick(w.rootA, w.rootB, filepath.Join(w.tmp, "does-not-exist"))
	case "listen-addr":
		return pick(fmt.Sprintf("127.0.0.1:%d", w.portA), fmt.Sprintf("127.0.0.1:%d", w.portB), "127.0.0.1:notaport")
	case "allow-write":
		return pick("true", "false", "maybe")
	case "client-whitelist":
		return pick("127.0.0.2", "127.0.0.3", "127.0.0.")
	case "max-clients":
		return pick("1", "2", "many")
	case "read-timeout":
		return pick("300ms", "30s", "soon")
	case "debug":
		return pick("true", "false", "perhaps")
	case "json-log":
		return pick("true", "false", "perhaps")
	case "debug-server-listen-addr":
		return pick(fmt.Sprintf("127.0.0.1:%d", w.dbgA), fmt.Sprintf("127.0.0.1:%d", w.dbgB), "127.0.0.1:notaport")
	}
	return ""
}

func envName(setting string) string {
	return "PS3NETSRV_" + strings.ToUpper(strings.ReplaceAll(setting, "-", "_"))
}

// observe returns "A", "B" or a description of something else, for the setting under test.
func (w *c19World) observe(setting string, b *hx.Bin, addr string) (string, error) {
	stat := func(local, path string) (bool, bool) { // (answered, exists)
		p, err := dialP(local, addr)
		if err != nil {
			return false, false
		}
		defer p.close()
		p.send(hx.Req{Op: "STAT", Path: hx.BStr(path)})
		ok := waitFor(1500*time.Millisecond, func() bool { n, _ := p.state(); return n >= 33 })
		if !ok {
			return false, false
		}
		p.mu.Lock()
		defer p.mu.Unlock()
		return true, p.buf[0] != 0xff
	}
	switch setting {
	case "root":
		_, a := stat("", "/markerA")
		_, bb := stat("", "/markerB")
		switch {
		case a && !bb:
			return "A", nil
		case bb && !a:
			return "B", nil
		}
		return fmt.Sprintf("markerA=%v markerB=%v", a, bb), nil
	case "listen-addr":
		return map[string]string{fmt.Sprintf("127.0.0.1:%d", w.portA): "A", fmt.Sprintf("127.0.0.1:%d", w.portB): "B"}[addr], nil
	case "allow-write":
		p, err := dialP("", addr)
		if err != nil {
			return "", err
		}
		defer p.close()
		p.send(hx.Req{Op: "MKDIR", Path: "/made-by-c19"})
		if !waitFor(2*time.Second, func() bool { n, _ := p.state(); return n >= 4 }) {
			return "no reply to MKDIR", nil
		}
		if p.buf[0] == 0 {
			return "A", nil
		}
		return "B", nil
	case "client-whitelist":
		a2, _ := stat("127.0.0.2", "/markerA")
		a3, _ := stat("127.0.0.3", "/markerA")
		switch {
		case a2 && !a3:
			return "A", nil
		case a3 && !a2:
			return "B", nil
		}
		return fmt.Sprintf("127.0.0.2 served=%v 127.0.0.3 served=%v", a2, a3), nil
	case "max-clients":
		var held []*pclient
		defer func() {
			for _, p := range held {
				p.close()
			}
		}()
		servedCount := 0
		for i := 0; i < 4; i++ {
			p, err := dialP("", addr)
			if err != nil {
				return "", err
			}
			held = append(held, p)
			p.send(hx.Req{Op: "STAT", Path: "/markerA"})
			if waitFor(700*time.Millisecond, func() bool { n, _ := p.state(); return n >= 33 }) {
				servedCount++
			} else {
				break
			}
		}
		switch servedCount {
		case 1:
			return "A", nil
		case 2:
			return "B", nil
		}
		return fmt.Sprintf("%d clients served concurrently", servedCount), nil
	case "read-timeout":
		p, err := dialP("", addr)
		if err != nil {
			return "", err
		}
		defer p.close()
		t0 := time.Now()
		cut := waitFor(2500*time.Millisecond, func() bool { _, eof := p.state(); return eof })
		if cut && time.Since(t0) < 2*time.Second {
			return "A", nil
		}
		if !cut {
			return "B", nil
		}
		return fmt.Sprintf("cut after %v", time.Since(t0)), nil
	case "debug":
		stat("", "/markerA")
		time.Sleep(50 * time.Millisecond)
		if strings.Contains(b.Stdout(), "Received opcode") {
			return "A", nil
		}
		return "B", nil
	case "json-log":
		stat("", "/markerA")
		time.Sleep(50 * time.Millisecond)
		lines := strings.Split(strings.TrimSpace(b.Stdout()), "\n")
		js := 0
		for _, l := range lines {
			var v map[string]any
			if json.Unmarshal([]byte(l), &v) == nil {
				js++
			}
		}
		if js == len(lines) && js > 0 {
			return "A", nil
		}
		if js == 0 {
			return "B", nil
		}
		return fmt.Sprintf("%d of %d log lines are JSON", js, len(lines)), nil
	case "debug-server-listen-addr":
		get := func(port int) bool {
			c := http.Client{Timeout: 800 * time.Millisecond}
			for i := 0; i < 10; i++ {
				r, err := c.Get(fmt.Sprintf("http://127.0.0.1:%d/debug/pprof/cmdline", port))
				if err == nil {
					io.Copy(io.Discard, r.Body)
					r.Body.Close()
					return r.StatusCode == 200
				}
				time.Sleep(50 * time.Millisecond)
			}
			return false
		}
		a, bb := get(w.dbgA), get(w.dbgB)
		switch {
		case a && !bb:
			return "A", nil
		case bb && !a:
			return "B", nil
		}
		return fmt.Sprintf("pprof on A=%v on B=%v", a, bb), nil
	}
	return "", fmt.Errorf("unknown setting")
}

func portFree(p int) bool {
	c, err := net.DialTimeout("tcp", fmt.Sprintf("127.0.0.1:%d", p), 200*time.Millisecond)
	if err == nil {
		c.Close()
		return false
	}
	return true
}

func runC19(c c19Case, st *hx.Stats) error {
	tmp, err := hx.Scratch("c19")
	if err != nil {
		return err
	}
	defer os.RemoveAll(tmp)
	w := &c19World{tmp: tmp, rootA: filepath.Join(tmp, "rootA"), rootB: filepath.Join(tmp, "rootB"), cwd: filepath.Join(tmp, "cwd"), home: filepath.Join(tmp, "home"), xdg: filepath.Join(tmp, "xdg"),
		portA: hx.FreePort(), portB: hx.FreePort(), dbgA: hx.FreePort(), dbgB: hx.FreePort()}
	// (a port that was just released may be handed out again at once: the four must differ to be told apart)
	for try := 0; try < 50 && (w.portA == w.portB || w.dbgA == w.dbgB || w.portA == w.dbgA || w.portA == w.dbgB || w.portB == w.dbgA || w.portB == w.dbgB); try++ {
		w.portB, w.dbgA, w.dbgB = hx.FreePort(), hx.FreePort(), hx.FreePort()
	}
	for _, d := range []string{w.rootA, w.rootB, w.cwd, w.home, w.xdg} {
		os.MkdirAll(d, 0o755)
	}
	os.WriteFile(filepath.Join(w.rootA, "markerA"), []byte("a"), 0o644)
	os.WriteFile(filepath.Join(w.rootB, "markerB"), []byte("b"), 0o644)
	// the default root "." = cwd must be distinguishable too
	os.WriteFile(filepath.Join(w.cwd, "markerCWD"), []byte("c"), 0o644)
	// the working directory may hold anything, also directories named like the program's own sub-commands
	// (every second case; they must mean nothing)
	if (len(c.Setting)+len(c.Assigns)+len(c.Assigns[0].Channel))%2 == 0 {
		for _, d := range []string{"server", "decrypt", "make-iso"} {
			os.MkdirAll(filepath.Join(w.cwd, d), 0o755)
			os.WriteFile(filepath.Join(w.cwd, d, "markerCMD"), []byte("x"), 0o644)
		}
	}
	args := []string{"server"}
	var env []string
	ini := map[string][]string{} // file -> lines
	useXDG := false
	for _, a := range c.Assigns {
		val := w.value(c.Setting, a.Value)
		line := fmt.Sprintf("%s = %s", c.Setting, val)
		switch a.Channel {
		case "flag":
			if (c.Setting == "allow-write" || c.Setting == "debug" || c.Setting == "json-log") && val != "maybe" && val != "perhaps" {
				args = append(args, fmt.Sprintf("--%s=%s", c.Setting, val))
			} else {
				args = append(args, fmt.Sprintf("--%s=%s", c.Setting, val))
			}
		case "env":
			env = append(env, envName(c.Setting)+"="+val)
		case "config-flag":
			f := filepath.Join(tmp, "by-flag.ini")
			ini[f] = append(ini[f], line)
			args = append([]string{"--config=" + f}, args...)
		case "config-env":
			f := filepath.Join(tmp, "by-env.ini")
			ini[f] = append(ini[f], line)
			env = append(env, "PS3NETSRV_CONFIG_FILE="+f)
		case "config-flag-home", "config-env-home":
			// the file lives in the home directory and is named the way a shell user writes it when the shell does not
			// expand it (quoted, in a unit file, in a container's environment): the program expands "~/" itself
			// ("~" is the home directory of the user database, not $HOME: the file has to be put into the real one)
			u, err := user.Current()
			if err != nil || u.HomeDir == "" {
				st.Label("no home directory known: case skipped")
				return nil
			}
			name := fmt.Sprintf(".verif-c19-%d-%s.ini", os.Getpid(), filepath.Base(tmp))
			f := filepath.Join(u.HomeDir, name)
			if a.Value != "file-missing" {
				if err := os.WriteFile(f, nil, 0o600); err != nil {
					st.Label("home directory not writable: case skipped")
					return nil
				}
			}
			defer os.Remove(f)
			ini[f] = append(ini[f], line)
			if a.Channel == "config-flag-home" {
				args = append([]string{"--config=~/" + name}, args...)
			} else {
				env = append(env, "PS3NETSRV_CONFIG_FILE=~/"+name)
			}
		case "cwd-ini":
			f := filepath.Join(w.cwd, "config.ini")
			ini[f] = append(ini[f], line)
		case "user-ini":
			f := filepath.Join(w.home, ".config", "ps3netsrv-go", "config.ini")
			ini[f] = append(ini[f], line)
		case "xdg-ini":
			f := filepath.Join(w.xdg, "ps3netsrv-go", "config.ini")
			ini[f] = append(ini[f], line)
			useXDG = true
		}
	}
	if useXDG {
		env = append(env, "XDG_CONFIG_HOME="+w.xdg)
	}
	fileState := ""
	for _, a := range c.Assigns {
		if a.Value == "file-missing" || a.Value == "file-broken" || a.Value == "file-utf16" || a.Value == "file-unreadable" {
			fileState = a.Value
		}
	}
	for f, lines := range ini {
		os.MkdirAll(filepath.Dir(f), 0o755)
		switch fileState {
		case "file-missing":
			// the configuration file that was named does not exist
		case "file-broken":
			os.WriteFile(f, []byte("[server\n"+strings.Join(lines, "\n")+"\n"), 0o644) // unclosed section header
		case "file-unreadable":
			// the file is there, but the user the server runs as may not read it (a root-owned 0600 file and an
			// unprivileged service)
			os.WriteFile(f, []byte("[server]\n"+strings.Join(lines, "\n")+"\n"), 0o600)
		case "file-utf16":
			// what a windows editor saves as "Unicode": UTF-16LE with a byte order mark, CRLF, no final line end -
			// not a text the INI reader understands; its settings must not vanish silently
			text := "[server]\r\n" + strings.Join(lines, "\r\n")
			b := []byte{0xFF, 0xFE}
			for _, r := range text {
				b = append(b, byte(r), byte(r>>8))
			}
			os.WriteFile(f, b, 0o644)
		default:
			os.WriteFile(f, []byte("[server]\n"+strings.Join(lines, "\n")+"\n"), 0o644)
		}
	}
	// settings not under test get fixed values by flag
	addr := fmt.Sprintf("127.0.0.1:%d", w.portA)
	if c.Setting != "listen-addr" {
		args = append(args, "--listen-addr="+addr)
	}
	if c.Setting != "root" {
		args = append(args, "--root="+w.rootA)
	}
	// expectation
	anyBad, flagVal := false, ""
	vals := map[string]bool{}
	for _, a := range c.Assigns {
		if a.Value == "bad" || a.Value == "bad2" || a.Value == "empty" || a.Value == "file-missing" || a.Value == "file-broken" || a.Value == "file-utf16" || a.Value == "file-unreadable" {
			anyBad = true
		}
		if a.Channel == "flag" {
			flagVal = a.Value
		}
		vals[a.Value] = true
	}
	st.Label("setting="+c.Setting, fmt.Sprintf("channels=%d", len(c.Assigns)))
	for _, a := range c.Assigns {
		st.Label("channel=" + a.Channel)
	}
	if len(c.Assigns) >= 2 || (len(c.Assigns) == 1 && c.Assigns[0].Channel != "flag") {
		st.NT(fmt.Sprintf("%s|%v", c.Setting, c.Assigns))
	}
	st.Sample(c)
	var uid uint32
	if fileState == "file-unreadable" {
		if os.Geteuid() != 0 {
			st.Label("not root: cannot start the server as another user, case skipped")
			return nil
		}
		// an unprivileged user has to reach the binary and the directories of this case
		uid = 65534
		for _, start := range []string{tmp, filepath.Dir(hx.BinPath())} {
			for p := start; p != "/" && p != "."; p = filepath.Dir(p) {
				if fi, err := os.Stat(p); err == nil && fi.Mode().Perm()&0o005 != 0o005 {
					os.Chmod(p, fi.Mode().Perm()|0o055)
				}
			}
		}
	}
	b, err := hx.StartBin(hx.BinOpts{Args: args, Env: env, Dir: w.cwd, Home: w.home, Uid: uid})
	if err != nil {
		return err
	}
	defer b.Kill()
	candidates := []string{addr}
	if c.Setting == "listen-addr" {
		candidates = []string{fmt.Sprintf("127.0.0.1:%d", w.portA), fmt.Sprintf("127.0.0.1:%d", w.portB)}
	}
	listening := ""
	waitFor(6*time.Second, func() bool {
		if b.Exited() {
			return true
		}
		for _, cand := range candidates {
			_, port, _ := net.SplitHostPort(cand)
			if hx.PidListensOn(b.Cmd.Process.Pid, port) {
				listening = cand
				return true
			}
		}
		return false
	})
	if anyBad {
		if c19Security[c.Setting] || true {
			// an invalid value must stop start-up (demanded for the security-relevant settings; others are only required not to crash)
			if listening != "" && c19Security[c.Setting] {
				return hx.Failf("invalid-stops-startup", "%s: malformed value %q via %v did not stop start-up: the server is listening on %s", c.Setting, w.value(c.Setting, c.Assigns[0].Value), c.Assigns, listening)
			}
			if crashed, what := b.Crashed(); crashed {
				return hx.Failf("no-panic", "malformed configuration crashed the binary: %s", what)
			}
			if listening == "" {
				code, done := b.Wait(3 * time.Second)
				if done && code == 0 {
					return hx.Failf("invalid-stops-startup", "%s: malformed value: process exited with status 0", c.Setting)
				}
			}
			st.Label("malformed value")
			return nil
		}
	}
	if listening == "" {
		if strings.Contains(b.Stderr(), "address already in use") {
			// another process took the port between choosing and binding it: nothing to judge
			return &hx.InfraError{Err: fmt.Errorf("port taken by another process: %s", head(b.Stderr(), 200))}
		}
		return hx.Failf("starts", "%s via %v: the server did not start: exit=%v stderr=%s stdout=%s", c.Setting, c.Assigns, b.Exited(), head(b.Stderr(), 400), head(b.Stdout(), 300))
	}
	got, err := w.observe(c.Setting, b, listening)
	if err != nil {
		return err
	}
	switch {
	case flagVal != "":
		if got != flagVal {
			return hx.Failf("flag-wins", "%s: flag gives %s, other channels %v: observed effect %q", c.Setting, flagVal, c.Assigns, got)
		}
	case len(vals) == 1:
		for v := range vals {
			if got != v {
				return hx.Failf("channel-effective", "%s = %s via %v: observed effect %q (the setting had no or another effect)", c.Setting, w.value(c.Setting, v), c.Assigns, got)
			}
		}
	default:
		if !vals[got] {
			return hx.Failf("channel-effective", "%s via %v: observed effect %q is none of the given values", c.Setting, c.Assigns, got)
		}
	}
	return nil
}

func c19Cases(yield func(c19Case) bool) {
	// single channel, both values
	for _, s := range c19Settings {
		for _, ch := range c19Channels {
			for _, v := range []string{"A", "B"} {
				if !yield(c19Case{Setting: s, Assigns: []c19Assign{{ch, v}}}) {
					return
				}
			}
		}
	}
	// all pairs of channels with conflicting values
	seed := hx.Seed()
	n := 0
	for _, s := range c19Settings {
		for i, c1 := range c19Channels {
			for j, c2 := range c19Channels {
				if i >= j || (c1 == "user-ini" && c2 == "xdg-ini") {
					continue
				}
				n++
				if !hx.Thorough() && c1 != "flag" && (uint64(n)+seed)%3 != 0 {
					continue
				}
				a, b := "A", "B"
				if n%2 == 0 {
					a, b = "B", "A"
				}
				if !yield(c19Case{Setting: s, Assigns: []c19Assign{{c1, a}, {c2, b}}}) {
					return
				}
			}
		}
	}
	// malformed values per setting per channel
	for _, s := range c19Settings {
		for _, ch := range c19Channels {
			if !c19Security[s] && !hx.Thorough() {
				continue
			}
			if !yield(c19Case{Setting: s, Assigns: []c19Assign{{ch, "bad"}}}) {
				return
			}
			if !c19Security[s] {
				continue
			}
			if !yield(c19Case{Setting: s, Assigns: []c19Assign{{ch, "bad2"}}}) {
				return
			}
			// the empty value: no range, no number, no duration (an empty root means the working directory and is valid)
			if s != "root" && !yield(c19Case{Setting: s, Assigns: []c19Assign{{ch, "empty"}}}) {
				return
			}
		}
	}
}

// c19FileCases: the configuration file itself is the problem - an explicitly named file that does not exist, or a
// file (in any location) that is no INI file. A whitelist kept in such a file must not silently vanish: start-up
// stops with an error message, not with a stack trace.
func c19FileCases(yield func(c19Case) bool) {
	for _, ch := range []string{"config-flag", "config-env"} {
		if !yield(c19Case{Setting: "client-whitelist", Assigns: []c19Assign{{ch, "file-missing"}}}) {
			return
		}
		if !yield(c19Case{Setting: "client-whitelist", Assigns: []c19Assign{{ch, "file-unreadable"}}}) {
			return
		}
	}
	for _, ch := range []string{"config-flag", "config-env", "cwd-ini", "user-ini", "xdg-ini"} {
		if !yield(c19Case{Setting: "client-whitelist", Assigns: []c19Assign{{ch, "file-broken"}}}) {
			return
		}
		if !yield(c19Case{Setting: "client-whitelist", Assigns: []c19Assign{{ch, "file-utf16"}}}) {
			return
		}
	}
}

// c19HomeCases: configuration files named relative to the home directory ("~/...").
func c19HomeCases(yield func(c19Case) bool) {
	for _, s := range []string{"client-whitelist", "root", "read-timeout"} {
		for _, ch := range []string{"config-flag-home", "config-env-home"} {
			for _, v := range []string{"A", "B"} {
				if !yield(c19Case{Setting: s, Assigns: []c19Assign{{ch, v}}}) {
					return
				}
			}
		}
	}
	yield(c19Case{Setting: "client-whitelist", Assigns: []c19Assign{{"config-env-home", "file-missing"}}})
}

func TestC19Config(t *testing.T) {
	st := hx.NewStats("C19", "config")
	st.MarkExhaustive("9 settings x 7 channels x 2 values (single channel); all flag-vs-other pairs; 3 malformed forms (wrong syntax, second wrong form, empty) per security-relevant setting per channel; other channel pairs sampled 1/3 in quick, all in thorough")
	all := func(yield func(c19Case) bool) {
		ok := true
		c19Cases(func(c c19Case) bool { ok = yield(c); return ok })
		if ok {
			c19FileCases(func(c c19Case) bool { ok = yield(c); return ok })
		}
		if ok {
			c19HomeCases(yield)
		}
	}
	hx.RunCases(t, st, all, runC19, hx.PropOpts{})
}
