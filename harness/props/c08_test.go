package props

import (
	"fmt"
	"strings"
	"testing"

	"pgregory.net/rapid"

	pfs "github.com/xakep666/ps3netsrv-go/pkg/fs"
	"github.com/xakep666/ps3netsrv-go/verif/hx"
	"github.com/xakep666/ps3netsrv-go/verif/isoread"
)

const d1chars = "ABCDEFGHIJKLMNOPQRSTUVWXYZabcdefghijklmnopqrstuvwxyz0123456789_!\"%&'()*+,-./:;<=>?"

// mapName: the documented name mapping (portable characters kept, others '_'; primary upper-cased).
func mapName(n string, joliet bool) string {
	if !joliet {
		n = strings.ToUpper(n)
	}
	return strings.Map(func(r rune) rune {
		if strings.ContainsRune(d1chars, r) {
			return r
		}
		return '_'
	}, n)
}

// namesDistinctAfterMapping: every directory's children stay distinct in both hierarchies.
func namesDistinctAfterMapping(tree *hx.Node) bool {
	ok := true
	tree.Walk(func(_ string, n *hx.Node) {
		if n.Kind != "dir" {
			return
		}
		for _, j := range []bool{false, true} {
			seen := map[string]bool{}
			for _, c := range n.Children {
				if c.Kind == "symlink" {
					continue
				}
				m := mapName(c.Name, j)
				if seen[m] {
					ok = false
				}
				seen[m] = true
			}
		}
	})
	return ok
}

func genC08(t *rapid.T) isoCase {
	shape := rapid.IntRange(0, 12).Draw(t, "shape")
	o := hx.TreeOpts{MaxDepth: 3, MaxEntries: 6, MaxTotal: 40, MaxFile: 20000, EmptyBias: true, MTimes: true,
		NameClass: []string{"portable", "portable", "portable", "long", "nonascii", "spaces", "casecollide", "mapcollide"}}
	switch shape {
	case 12:
		o.NameClass = []string{"portable"}
		o.MaxTotal = 12
	case 0:
		o.MaxDepth, o.MaxEntries, o.MaxTotal = 8, 3, 40
	case 1:
		o.NameClass = []string{"portable"}
	case 2:
		o.NameClass = []string{"portable", "long"}
	case 3:
		o.NameClass = []string{"portable", "nonascii", "spaces"}
	case 4:
		o.NameClass = []string{"portable", "casecollide", "mapcollide"}
	}
	tree := hx.GenTree(t, o)
	if shape >= 5 && shape <= 7 {
		addWide(t, tree, []string{"long"})
	}
	if shape == 8 {
		// hundreds of directories (thorough: > 1000)
		many := hx.Dir("MANY")
		n := rapid.IntRange(201, 420).Draw(t, "manydirs")
		if hx.Thorough() {
			n = rapid.IntRange(1001, 1400).Draw(t, "manydirs-thorough")
		}
		for i := 0; i < n; i++ {
			many.Children = append(many.Children, hx.Dir(fmt.Sprintf("D%04d", i)))
		}
		tree.Children = append(tree.Children, many)
	}
	if shape == 9 || shape == 10 {
		addFitted(t, tree)
	}
	c := isoCase{Tree: tree, PS3: rapid.IntRange(0, 2).Draw(t, "ps3") == 0, PermSeed: rapid.Uint64().Draw(t, "perm"),
		Route: rapid.SampledFrom([]string{"lib", "lib", "lib", "lib", "net", "makeiso"}).Draw(t, "route")}
	if shape == 12 {
		addFittedPathTable(t, tree, c.PS3)
	}
	if c.PS3 {
		c.TitleID = genTitleID(t)
		c.SFOExtra = genSFOExtra(t)
	}
	c.RootName = genRootName(t)
	return c
}

func c08Classes(tree *hx.Node) (ls []string, dirs int) {
	spill, long, nonascii := false, false, false
	tree.Walk(func(_ string, n *hx.Node) {
		if n.Kind == "dir" {
			dirs++
			sz := 68
			for _, c := range n.Children {
				l := 33 + len(c.Name)
				sz += l + l%2
			}
			if sz > 2048 {
				spill = true
			}
		}
		if len([]rune(n.Name)) >= 64 {
			long = true
		}
		for _, r := range n.Name {
			if r > 127 {
				nonascii = true
			}
		}
	})
	if spill {
		ls = append(ls, "directory records exceed one sector")
	}
	if long {
		ls = append(ls, "name >= 64 characters")
	}
	if nonascii {
		ls = append(ls, "non-ASCII name")
	}
	if dirs > 100 {
		ls = append(ls, "> 100 directories")
	}
	return
}

func runC08(c isoCase, st *hx.Stats) error {
	ls, dirs := c08Classes(c.Tree)
	distinct := namesDistinctAfterMapping(c.tree())
	if !distinct {
		ls = append(ls, "names colliding after mapping")
	}
	st.Label(ls...)
	st.Label("route="+c.Route, fmt.Sprintf("ps3=%v", c.PS3))
	d, err := buildAndDecode(c, st)
	if err != nil {
		return err
	}
	if d == nil {
		st.Label("image creation returned an error (accepted)")
		return nil
	}
	defer d.cleanup()
	labelPathTableFit(d.vol, st)
	if len(ls) > 0 {
		st.NT(fmt.Sprintf("%s|%v|%d|%s", c.Route, c.PS3, c.PermSeed, treeKey(c.Tree)))
	}
	st.Sample(map[string]any{"route": c.Route, "ps3": c.PS3, "dirs": dirs, "classes": ls, "image_bytes": d.size})
	probs := d.vol.Validate(isoread.ValidateOpts{AnnouncedSize: d.announced, SizeClauses: true, PS3: c.PS3, TitleID: c.TitleID, NamesDistinct: distinct, MaxPTDirs: 65536})
	if len(probs) > 0 {
		msgs := make([]string, 0, 4)
		for i, p := range probs {
			if i >= 4 {
				msgs = append(msgs, fmt.Sprintf("... %d more", len(probs)-4))
				break
			}
			msgs = append(msgs, p.Error())
		}
		return hx.Failf("iso-"+probs[0].Clause, "%s", strings.Join(msgs, " || "))
	}
	return nil
}

// labelPathTableFit counts the volumes whose path table (as announced) ends exactly on a sector boundary.
func labelPathTableFit(v *isoread.Vol, st *hx.Stats) {
	for _, h := range []*isoread.Hier{v.Primary, v.Joliet} {
		if h != nil && h.PTSize[0] > 0 && h.PTSize[0]%2048 == 0 {
			st.Label("a path table fills its last sector exactly")
			st.NT(fmt.Sprintf("ptfit|%d", h.PTSize[0]))
			return
		}
	}
}

func TestC08Valid(t *testing.T) {
	st := hx.NewStats("C08", "valid")
	hx.RunProp(t, st, genC08, runC08, hx.PropOpts{WriteAhead: true})
}

// ---- C08: more directories than a path table can number -------------------------------------------------------
//
// Path tables name a directory's parent by a 16-bit number (directories are numbered from 1): a tree with more
// than 65535 directories cannot have complete path tables. Creation must fail - a volume whose tables were cut short
// is not valid. (Synthetic filesystem: no disk. On a tree that fails to refuse, building takes about an hour because
// it is quadratic in the number of directories; the case then fails on the table size.)
func TestC08TooManyDirs(t *testing.T) {
	st := hx.NewStats("C08", "too-many-dirs")
	st.MarkExhaustive("one tree of 65 794 directories (257 x 256) through the library: refused, or path tables complete")
	cases := func(yield func(int) bool) { yield(257) }
	hx.RunCases(t, st, cases, func(n int, st *hx.Stats) error {
		root := hx.Dir("")
		for i := 0; i < n; i++ {
			d := hx.Dir(fmt.Sprintf("A%03d", i))
			for j := 0; j < 256; j++ {
				d.Children = append(d.Children, hx.Dir(fmt.Sprintf("B%03d", j)))
			}
			root.Children = append(root.Children, d)
		}
		sfs := hx.NewSynthFs(hx.Dir("", &hx.Node{Name: "t", Kind: "dir", Children: root.Children}))
		viso, err := pfs.NewVirtualISO(sfs, "/t", false)
		st.NT("257x256")
		st.Sample(map[string]any{"directories": 1 + n + n*256})
		if err != nil {
			st.Label("refused: " + head(err.Error(), 80))
			return nil
		}
		defer viso.Close()
		s, _ := viso.Stat()
		v, perr := isoread.Parse(viso, s.Size())
		if perr != nil {
			return hx.Failf("image-parse", "image of %d directories: %v", 1+n+n*256, perr)
		}
		for _, h := range []*isoread.Hier{v.Primary, v.Joliet} {
			if len(h.PTL) != len(h.Dirs) || len(h.PTM) != len(h.Dirs) {
				return hx.Failf("iso-path-table", "image of %d directories was created, its path tables have %d / %d entries for %d directories", 1+n+n*256, len(h.PTL), len(h.PTM), len(h.Dirs))
			}
		}
		return nil
	}, hx.PropOpts{})
}
