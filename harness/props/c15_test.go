package props

import (
	"fmt"
	"io"
	"math/big"
	"net"
	"net/netip"
	"os"
	"path/filepath"
	"sync"
	"testing"
	"time"

	"golang.org/x/net/netutil"
	"pgregory.net/rapid"

	"github.com/xakep666/ps3netsrv-go/pkg/iprange"
	"github.com/xakep666/ps3netsrv-go/verif/hx"
)

// ---- C15: admission control ---------------------------------------------------------------

// pclient: a client socket with a background reader (what did it receive, was it closed by the peer?).
type pclient struct {
	c    net.Conn
	mu   sync.Mutex
	buf  []byte
	eof  bool
	addr string
}

func dialP(local, target string) (*pclient, error) {
	d := net.Dialer{Timeout: 5 * time.Second}
	if local != "" {
		d.LocalAddr = &net.TCPAddr{IP: net.ParseIP(local)}
	}
	c, err := d.Dial("tcp", target)
	if err != nil {
		return nil, err
	}
	p := &pclient{c: c, addr: local}
	go func() {
		b := make([]byte, 4096)
		for {
			n, err := c.Read(b)
			p.mu.Lock()
			p.buf = append(p.buf, b[:n]...)
			if err != nil {
				p.eof = true
				p.mu.Unlock()
				return
			}
			p.mu.Unlock()
		}
	}()
	return p, nil
}

func (p *pclient) state() (n int, eof bool) {
	p.mu.Lock()
	defer p.mu.Unlock()
	return len(p.buf), p.eof
}

func (p *pclient) send(r hx.Req) { _, _ = p.c.Write(r.Encode()) }
func (p *pclient) close()        { _ = p.c.Close() }

func waitFor(d time.Duration, cond func() bool) bool {
	deadline := time.Now().Add(d)
	for {
		if cond() {
			return true
		}
		if time.Now().After(deadline) {
			return false
		}
		time.Sleep(2 * time.Millisecond)
	}
}

type c15Server struct {
	addr  string
	root  string
	close func()
}

// startC15 starts the server with the admission settings, in-process (wrappers composed as in cmd/) or as the real binary.
func startC15(target string, v6 bool, whitelist string, maxClients int) (*c15Server, error) {
	root, err := hx.Scratch("c15")
	if err != nil {
		return nil, err
	}
	host := "127.0.0.1"
	if v6 {
		host = "[::1]"
	}
	if target == "bin" {
		var last error
		for try := 0; try < 5; try++ {
			port := hx.FreePort()
			addr := fmt.Sprintf("%s:%d", host, port)
			args := []string{"server", "--listen-addr=" + addr, "--root=" + root, "--allow-write"}
			if whitelist != "" {
				args = append(args, "--client-whitelist="+whitelist)
			}
			if maxClients > 0 {
				args = append(args, fmt.Sprintf("--max-clients=%d", maxClients))
			}
			b, err := hx.StartBin(hx.BinOpts{Args: args, Dir: root})
			if err != nil {
				os.RemoveAll(root)
				return nil, err
			}
			// a whitelisted probe could consume a slot: only wait for the socket to be owned by the process
			if err := b.WaitOwnsPort(addr, 10*time.Second); err != nil {
				last = err
				b.Kill()
				continue
			}
			return &c15Server{addr: addr, root: root, close: func() { b.Kill(); os.RemoveAll(root) }}, nil
		}
		os.RemoveAll(root)
		return nil, last
	}
	network, laddr := "tcp4", "127.0.0.1:0"
	if v6 {
		network, laddr = "tcp6", "[::1]:0"
	}
	var wl *iprange.IPRange
	if whitelist != "" {
		wl, err = iprange.ParseIPRange(whitelist)
		if err != nil {
			os.RemoveAll(root)
			return nil, fmt.Errorf("whitelist %q rejected: %w", whitelist, err)
		}
	}
	tg, err := hx.StartInprocListen(network, laddr, root, hx.InprocOpts{AllowWrite: true, WrapListener: func(ln net.Listener) net.Listener {
		// cmd/ps3netsrv-go/server.go: limiter first, filter outermost
		if maxClients > 0 {
			ln = netutil.LimitListener(ln, maxClients)
		}
		if wl != nil {
			ln = iprange.FilterListener(ln, wl, false)
		}
		return ln
	}})
	if err != nil {
		os.RemoveAll(root)
		return nil, err
	}
	return &c15Server{addr: tg.Addr, root: root, close: func() { tg.Close(); os.RemoveAll(root) }}, nil
}

// ---- whitelist --------------------------------------------------------------------------------

type c15WLCase struct {
	Spec   string   `json:"spec"`
	Lo     string   `json:"lo"`
	Hi     string   `json:"hi"`
	Addrs  []string `json:"addrs"`
	V6     bool     `json:"v6"`
	Target string   `json:"target"`
}

func genC15WL(t *rapid.T) c15WLCase {
	c := c15WLCase{Target: "inproc"}
	if rapid.IntRange(0, 7).Draw(t, "v6") == 0 {
		c.V6 = true
		one := addrBig(netip.MustParseAddr("::1"))
		switch rapid.IntRange(0, 3).Draw(t, "v6spec") {
		case 0:
			c.Spec, c.Lo, c.Hi = "::1", one.String(), one.String()
		case 1:
			c.Spec, c.Lo, c.Hi = "::2", big.NewInt(2).String(), big.NewInt(2).String()
		case 2:
			c.Spec, c.Lo, c.Hi = "::1-::5", one.String(), big.NewInt(5).String()
		default:
			lo, hi, _ := blockBounds(netip.MustParseAddr("::"), 126) // ::0/126 -> ::1..::2
			c.Spec, c.Lo, c.Hi = "::/126", lo.String(), hi.String()
		}
		c.Addrs = []string{"::1"}
		return c
	}
	base := netip.AddrFrom4([4]byte{127, byte(rapid.IntRange(0, 3).Draw(t, "b1")), byte(rapid.IntRange(0, 2).Draw(t, "b2")), byte(rapid.IntRange(0, 255).Draw(t, "b3"))})
	var lo, hi *big.Int
	switch rapid.IntRange(0, 5).Draw(t, "kind") {
	case 5:
		// a whitelist in IPv6 notation that lies below the mapped block, while its last four bytes - read alone - enclose
		// the IPv4 clients: every IPv4 client (::ffff:127.x.y.z) is outside of it
		switch rapid.IntRange(0, 2).Draw(t, "v6low") {
		case 0:
			lo, hi = addrBig(netip.MustParseAddr("::1")), addrBig(netip.MustParseAddr("::7fff:fffe"))
			c.Spec = "::1-::7fff:fffe"
		case 1:
			lo, hi, _ = blockBounds(netip.MustParseAddr("::7f00:0"), 104)
			c.Spec = "::7f00:0/104"
		default:
			lo, hi = addrBig(netip.MustParseAddr("::7f00:0")), addrBig(netip.MustParseAddr("::7f00:ffff"))
			c.Spec = "::7f00:0-::7f00:ffff"
		}
		c.Lo, c.Hi = lo.String(), hi.String()
		c.Addrs = []string{"127.0.0.1", fmt.Sprintf("127.0.%d.%d", rapid.IntRange(0, 2).Draw(t, "v6low-b2"), rapid.IntRange(1, 254).Draw(t, "v6low-b3"))}
		return c
	case 0:
		c.Spec = base.String()
		lo, hi = addrBig(base), addrBig(base)
	case 1:
		w := rapid.IntRange(0, 300).Draw(t, "width")
		lo = addrBig(base)
		hi = new(big.Int).Add(lo, big.NewInt(int64(w)))
		b, _ := netip.AddrFromSlice(bigAddr16(hi))
		c.Spec = base.String() + "-" + b.Unmap().String()
	case 2, 3:
		p := rapid.IntRange(8, 32).Draw(t, "pfx")
		lo, hi, _ = blockBounds(base, p)
		c.Spec = fmt.Sprintf("%s/%d", base, p)
	default:
		p := rapid.IntRange(8, 32).Draw(t, "pfx")
		lo, hi, _ = blockBounds(base, p)
		c.Spec = fmt.Sprintf("%s/%s", base, net.IP(net.CIDRMask(p, 32)).String())
	}
	c.Lo, c.Hi = lo.String(), hi.String()
	lo127 := addrBig(netip.MustParseAddr("127.0.0.1"))
	hi127 := addrBig(netip.MustParseAddr("127.255.255.254"))
	seen := map[string]bool{}
	add := func(v *big.Int) {
		if v.Cmp(lo127) < 0 || v.Cmp(hi127) > 0 {
			return
		}
		a, _ := netip.AddrFromSlice(bigAddr16(v))
		s := a.Unmap().String()
		if !seen[s] {
			seen[s] = true
			c.Addrs = append(c.Addrs, s)
		}
	}
	for _, b := range []*big.Int{lo, hi} {
		for d := int64(-1); d <= 1; d++ {
			add(new(big.Int).Add(b, big.NewInt(d)))
		}
	}
	for i := 0; i < 3; i++ {
		add(addrBig(netip.AddrFrom4([4]byte{127, byte(rapid.IntRange(0, 3).Draw(t, fmt.Sprintf("r%d-1", i))), byte(rapid.IntRange(0, 2).Draw(t, fmt.Sprintf("r%d-2", i))), byte(rapid.IntRange(1, 254).Draw(t, fmt.Sprintf("r%d-3", i)))})))
	}
	add(lo127)
	return c
}

func runC15WL(c c15WLCase, st *hx.Stats) error {
	srv, err := startC15(c.Target, c.V6, c.Spec, 0)
	if err != nil {
		return err
	}
	defer srv.close()
	lo, _ := new(big.Int).SetString(c.Lo, 10)
	hi, _ := new(big.Int).SetString(c.Hi, 10)
	st.Label("target="+c.Target, fmt.Sprintf("v6=%v", c.V6))
	st.Sample(map[string]any{"spec": c.Spec, "addrs": c.Addrs, "target": c.Target})
	for i, a := range c.Addrs {
		ip := netip.MustParseAddr(a)
		v := addrBig(ip)
		want := v.Cmp(lo) >= 0 && v.Cmp(hi) <= 0
		p, err := dialP(a, srv.addr)
		if err != nil {
			return fmt.Errorf("dial from %s: %w", a, err)
		}
		dir := fmt.Sprintf("/made-by-%d", i)
		p.send(hx.Req{Op: "MKDIR", Path: hx.BStr(dir)})
		p.send(hx.Req{Op: "STAT", Path: "/"})
		near := new(big.Int).Abs(new(big.Int).Sub(v, lo)).Cmp(big.NewInt(1)) <= 0 || new(big.Int).Abs(new(big.Int).Sub(v, hi)).Cmp(big.NewInt(1)) <= 0
		if near {
			st.Label("client address within 1 of a whitelist border")
		}
		st.NT(fmt.Sprintf("%s|%s|%s", c.Target, c.Spec, a))
		if want {
			ok := waitFor(5*time.Second, func() bool { n, _ := p.state(); return n >= 4+33 })
			n, eof := p.state()
			p.close()
			if !ok {
				return hx.Failf("whitelisted-served", "whitelist %q: client %s is inside the set but got %d reply bytes (closed by server: %v)", c.Spec, a, n, eof)
			}
			if _, err := os.Stat(filepath.Join(srv.root, dir)); err != nil {
				return hx.Failf("whitelisted-served", "whitelist %q: client %s inside the set: its MKDIR had no effect", c.Spec, a)
			}
			st.Label("inside: served")
			continue
		}
		ok := waitFor(2*time.Second, func() bool { _, eof := p.state(); return eof })
		n, eof := p.state()
		p.close()
		if n > 0 {
			return hx.Failf("outsider-gets-nothing", "whitelist %q: client %s is outside the set but received %d bytes", c.Spec, a, n)
		}
		if !ok || !eof {
			return hx.Failf("outsider-closed", "whitelist %q: client %s is outside the set but its connection was not closed by the server", c.Spec, a)
		}
		time.Sleep(20 * time.Millisecond)
		if _, err := os.Stat(filepath.Join(srv.root, dir)); err == nil {
			return hx.Failf("outsider-no-effect", "whitelist %q: client %s outside the set: its MKDIR was executed", c.Spec, a)
		}
		st.Label("outside: closed without a byte")
	}
	return nil
}

// runC15WLTwice: a deadline miss (not a received byte) must repeat on a second run to count.
func runC15WLTwice(c c15WLCase, st *hx.Stats) error {
	err := runC15WL(c, st)
	if f, ok := err.(*hx.Fail); ok && (f.Clause == "outsider-closed" || f.Clause == "whitelisted-served") {
		if err2 := runC15WL(c, hx.NewStats("C15", "retry")); err2 == nil {
			st.Inconcl()
			return nil
		}
	}
	return err
}

func TestC15Whitelist(t *testing.T) {
	st := hx.NewStats("C15", "whitelist")
	hx.RunProp(t, st, genC15WL, runC15WLTwice, hx.PropOpts{})
}

func TestC15WhitelistBin(t *testing.T) {
	st := hx.NewStats("C15", "whitelist-bin")
	hx.RunProp(t, st, func(t *rapid.T) c15WLCase { c := genC15WL(t); c.Target = "bin"; return c }, runC15WLTwice, hx.PropOpts{})
}

// ---- client limit -----------------------------------------------------------------------------

type c15Event struct {
	Kind   string `json:"kind"` // arrive | depart
	Client int    `json:"client"`
	Out    bool   `json:"outsider,omitempty"` // arrive: from a non-whitelisted address
	Silent bool   `json:"silent,omitempty"`   // arrive: connects but never sends a byte (availability probe, or a waiter that gives up)
}

type c15LimitCase struct {
	N      int        `json:"n"`
	Events []c15Event `json:"events"`
	Target string     `json:"target"`
}

func genC15Limit(t *rapid.T) c15LimitCase {
	c := c15LimitCase{N: rapid.IntRange(1, 8).Draw(t, "n"), Target: "inproc"}
	maxClients := 4 * c.N
	nev := rapid.IntRange(2, 3*maxClients).Draw(t, "nev")
	next := 0
	var live []int
	for i := 0; i < nev; i++ {
		l := fmt.Sprintf("e%d", i)
		if len(live) == 0 || (next < maxClients && rapid.IntRange(0, 9).Draw(t, l+"-k") < 6) {
			if next >= maxClients {
				continue
			}
			c.Events = append(c.Events, c15Event{Kind: "arrive", Client: next, Out: rapid.IntRange(0, 4).Draw(t, l+"-out") == 0, Silent: rapid.IntRange(0, 3).Draw(t, l+"-silent") == 0})
			live = append(live, next)
			next++
		} else {
			j := rapid.IntRange(0, len(live)-1).Draw(t, l+"-who")
			c.Events = append(c.Events, c15Event{Kind: "depart", Client: live[j]})
			live = append(live[:j], live[j+1:]...)
		}
	}
	return c
}

const c15Whitelist = "127.0.0.1-127.0.0.100"

func runC15Limit(c c15LimitCase, st *hx.Stats) error {
	err := runC15LimitOnce(c, st)
	if f, ok := err.(*hx.Fail); ok && f.Clause == "slot-freed-serves-waiting" {
		// a deadline miss is re-run once in isolation; it counts only if it repeats
		if err2 := runC15LimitOnce(c, nil); err2 == nil {
			st.Inconcl()
			return nil
		}
	}
	return err
}

func runC15LimitOnce(c c15LimitCase, st *hx.Stats) error {
	srv, err := startC15(c.Target, false, c15Whitelist, c.N)
	if err != nil {
		return err
	}
	defer srv.close()
	clients := map[int]*pclient{}
	defer func() {
		for _, p := range clients {
			p.close()
		}
	}()
	// model: slots in use by served clients, FIFO queue of pending arrivals
	served := map[int]bool{}
	type pend struct {
		id     int
		out    bool
		dead   bool
		silent bool
	}
	silent := map[int]bool{}
	var queue []*pend
	rejected := map[int]bool{}
	promote := func() {
		for len(served) < c.N && len(queue) > 0 {
			p := queue[0]
			queue = queue[1:]
			switch {
			case p.dead:
				// accepted, found closed, slot freed again
			case p.out:
				rejected[p.id] = true
			default:
				served[p.id] = true
			}
		}
	}
	waitedThenServed, rejectedWhileFull := false, false
	check := func(step int) error {
		// served clients must have their reply, rejected ones must be closed without a byte
		ok := waitFor(5*time.Second, func() bool {
			for id := range served {
				if p := clients[id]; p != nil && !silent[id] {
					if n, _ := p.state(); n < 33 {
						return false
					}
				}
			}
			for id := range rejected {
				if p := clients[id]; p != nil {
					if _, eof := p.state(); !eof {
						return false
					}
				}
			}
			return true
		})
		if !ok {
			for id := range served {
				if p := clients[id]; p != nil && !silent[id] {
					if n, eof := p.state(); n < 33 {
						return hx.Failf("slot-freed-serves-waiting", "step %d: client %d holds or was given a free slot (limit %d, %d served) but has %d reply bytes after 5 s (eof %v)", step, id, c.N, len(served), n, eof)
					}
				}
			}
			for id := range rejected {
				if p := clients[id]; p != nil {
					if n, eof := p.state(); !eof {
						return hx.Failf("outsider-closed", "step %d: non-whitelisted client %d reached the filter but was not closed (bytes %d)", step, id, n)
					}
				}
			}
		}
		// waiting clients must see silence
		time.Sleep(60 * time.Millisecond)
		for _, p := range queue {
			if p.dead {
				continue
			}
			if n, eof := clients[p.id].state(); n > 0 || eof {
				return hx.Failf("beyond-limit-not-served", "step %d: client %d arrived while all %d slots were held but received %d bytes (closed: %v)", step, p.id, c.N, n, eof)
			}
		}
		for id := range served {
			if p := clients[id]; p != nil && silent[id] {
				if n, eof := p.state(); n > 0 || eof {
					return hx.Failf("silent-client-kept", "step %d: client %d holds a slot and has sent nothing: it received %d bytes / was closed (%v) although no read timeout is configured", step, id, n, eof)
				}
			}
		}
		for id := range rejected {
			if n, _ := clients[id].state(); n > 0 {
				return hx.Failf("outsider-gets-nothing", "step %d: non-whitelisted client %d received %d bytes", step, id, n)
			}
		}
		if len(served) > c.N {
			return hx.Failf("model", "model bug: %d served > limit", len(served))
		}
		return nil
	}
	for step, ev := range c.Events {
		switch ev.Kind {
		case "arrive":
			src := fmt.Sprintf("127.0.0.%d", 1+ev.Client%100)
			if ev.Out {
				src = fmt.Sprintf("127.0.1.%d", 1+ev.Client%100)
			}
			p, err := dialP(src, srv.addr)
			if err != nil {
				return fmt.Errorf("dial: %w", err)
			}
			clients[ev.Client] = p
			if ev.Silent {
				silent[ev.Client] = true
			} else {
				p.send(hx.Req{Op: "STAT", Path: "/"})
			}
			full := len(served) >= c.N
			queue = append(queue, &pend{id: ev.Client, out: ev.Out, silent: ev.Silent})
			promote()
			if full && ev.Out {
				rejectedWhileFull = true
			}
		case "depart":
			p := clients[ev.Client]
			if p == nil {
				continue
			}
			wasServed := served[ev.Client]
			p.close()
			delete(clients, ev.Client)
			delete(served, ev.Client)
			delete(rejected, ev.Client)
			for _, q := range queue {
				if q.id == ev.Client {
					q.dead = true
				}
			}
			before := len(queue)
			if wasServed {
				promote()
			}
			if wasServed && len(queue) < before {
				waitedThenServed = true
			}
		}
		if err := check(step); err != nil {
			return err
		}
	}
	// capacity not lost: everyone leaves, then N fresh whitelisted clients are all served
	for id, p := range clients {
		p.close()
		delete(clients, id)
	}
	time.Sleep(30 * time.Millisecond)
	var fresh []*pclient
	for i := 0; i < c.N; i++ {
		p, err := dialP(fmt.Sprintf("127.0.0.%d", 50+i), srv.addr)
		if err != nil {
			return fmt.Errorf("dial: %w", err)
		}
		p.send(hx.Req{Op: "STAT", Path: "/"})
		fresh = append(fresh, p)
	}
	ok := waitFor(6*time.Second, func() bool {
		for _, p := range fresh {
			if n, _ := p.state(); n < 33 {
				return false
			}
		}
		return true
	})
	for _, p := range fresh {
		p.close()
	}
	if !ok {
		return hx.Failf("capacity-recovers", "after all clients left, %d fresh clients (limit %d) were not all served within 6 s", c.N, c.N)
	}
	if st != nil {
		st.Label("target="+c.Target, fmt.Sprintf("limit=%d", c.N))
		if waitedThenServed {
			st.Label("a waiting client was later served")
		}
		if rejectedWhileFull {
			st.Label("a rejected arrival happened while the slots were full")
		}
		silentLeft := false
		for _, ev := range c.Events {
			if ev.Kind == "depart" && silent[ev.Client] {
				silentLeft = true
			}
		}
		if silentLeft {
			st.Label("a client left without ever sending a byte")
		}
		if waitedThenServed || rejectedWhileFull || silentLeft {
			st.NT(fmt.Sprintf("%s|%d|%v", c.Target, c.N, c.Events))
		}
		st.Sample(map[string]any{"limit": c.N, "target": c.Target, "events": len(c.Events)})
	}
	return nil
}

func TestC15Limit(t *testing.T) {
	st := hx.NewStats("C15", "limit")
	hx.RunProp(t, st, genC15Limit, runC15Limit, hx.PropOpts{})
}

func TestC15LimitBin(t *testing.T) {
	st := hx.NewStats("C15", "limit-bin")
	hx.RunProp(t, st, func(t *rapid.T) c15LimitCase { c := genC15Limit(t); c.Target = "bin"; return c }, runC15Limit, hx.PropOpts{})
}

var _ = io.EOF
