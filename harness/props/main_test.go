package props

import (
	"os"
	"testing"
)

func TestMain(m *testing.M) {
	os.Exit(m.Run())
}
