package props

import (
	"fmt"
	"testing"

	"pgregory.net/rapid"

	"github.com/xakep666/ps3netsrv-go/verif/hx"
)

// ---- C03: framing and the per-connection state machine ----------------------

func c03FixtureTree() *hx.Node {
	return hx.Dir("",
		hx.File("f1", 5000, 11),
		hx.File("zero", 0, 12),
		hx.Dir("d1", hx.File("a", 0, 13), hx.File("b", 3000, 14), hx.Dir("sub")),
		hx.Dir("empty"),
	)
}

// c03Alphabet: each of the 15 opcodes with representative arguments.
func c03Alphabet() []hx.Req {
	P := func(op, p string) hx.Req { return hx.Req{Op: op, Path: hx.BStr(p)} }
	return []hx.Req{
		P("OPEN_DIR", "/d1"), P("OPEN_DIR", "/missing"), P("OPEN_DIR", "/f1"), P("OPEN_DIR", "/***DVD***/d1"),
		{Op: "READ_DIR"}, {Op: "READ_ENTRY"}, {Op: "READ_ENTRY2"},
		P("STAT", "/f1"), P("STAT", "/d1"), P("STAT", "/nope"),
		P("OPEN_FILE", "/f1"), P("OPEN_FILE", "/missing"), P("OPEN_FILE", "/d1"), P("OPEN_FILE", "/CLOSEFILE"), P("OPEN_FILE", "/***DVD***/d1"),
		{Op: "READ_FILE", N: 100, Off: 10}, {Op: "READ_FILE", N: 4000, Off: 4000},
		{Op: "READ_CRIT", N: 100, Off: 10}, {Op: "READ_CRIT", N: 10, Off: 4995},
		{Op: "READ_CD", Start: 0, Count: 1}, {Op: "READ_CD", Start: 1, Count: 2},
		P("CREATE", "/new.bin"), P("CREATE", "/f1"), P("CREATE", "/nodir/x"), P("CREATE", "/f1/x"),
		{Op: "WRITE", N: 0, Seed: 5}, {Op: "WRITE", N: 37, Seed: 6},
		P("DELETE", "/d1/b"), P("MKDIR", "/made"), P("RMDIR", "/empty"),
		P("DIR_SIZE", "/d1"),
		{Op: "UNKNOWN", N: 0x1233},
	}
}

func c03Classify(c hx.SessionCase, st *hx.Stats) {
	comps := map[string]bool{}
	refusedWriteThenMore, trunc, unknown := false, false, false
	for i, r := range c.Reqs {
		switch r.Op {
		case "OPEN_DIR", "READ_DIR", "READ_ENTRY", "READ_ENTRY2":
			comps["dir"] = true
		case "OPEN_FILE", "READ_FILE", "READ_CRIT", "READ_CD":
			comps["ro"] = true
		case "CREATE", "WRITE":
			comps["wo"] = true
		case "UNKNOWN", "RAW":
			unknown = true
		}
		if r.Op == "WRITE" && r.N > 0 && i+1 < len(c.Reqs) {
			refusedWriteThenMore = true
		}
		if r.Short > 0 {
			trunc = true
		}
	}
	nt := len(comps) >= 2 || refusedWriteThenMore || trunc || unknown || c.Transport == "pipelined"
	if len(comps) >= 2 {
		st.Label("visits>=2 state components")
	}
	if refusedWriteThenMore {
		st.Label("upload with payload followed by another request")
	}
	if trunc {
		st.Label("truncated request")
	}
	if unknown {
		st.Label("unknown opcode")
	}
	st.Label("transport=" + c.Transport)
	st.Label(fmt.Sprintf("allow_write=%v", c.AllowWrite))
	if nt {
		st.NT(fmt.Sprintf("%v|%s|%s|%d", c.AllowWrite, c.Transport, reqKey(c.Reqs), c.SplitAt))
	}
	st.Sample(map[string]any{"allow_write": c.AllowWrite, "transport": c.Transport, "reqs": reqStrings(c.Reqs)})
}

func reqStrings(rs []hx.Req) []string {
	out := make([]string, len(rs))
	for i, r := range rs {
		out[i] = r.String()
		if r.Short > 0 {
			out[i] += fmt.Sprintf("[cut@%d]", r.Short)
		}
	}
	return out
}

func reqKey(rs []hx.Req) string {
	s := ""
	for _, r := range rs {
		s += r.String() + fmt.Sprint(r.Short) + ";"
	}
	return s
}

func runC03(c hx.SessionCase, st *hx.Stats) error {
	c03Classify(c, st)
	return hx.RunSession(c, st, hx.SessionHooks{})
}

// TestC03Enum: all sequences over the alphabet up to the tier's length bound,
// writing on and off, each on a fresh connection and a fresh tree.
func TestC03Enum(t *testing.T) {
	st := hx.NewStats("C03", "enum")
	alpha := c03Alphabet()
	maxLen := 2
	if hx.Thorough() {
		maxLen = 3
	}
	st.MarkExhaustive(fmt.Sprintf("all request sequences of length 1..%d over a %d-request alphabet x writing on/off (sync transport); in the quick tier also all length-3 sequences inside each state component's sub-alphabet (directory / read file / write file)", maxLen, len(alpha)))
	cases := func(yield func(hx.SessionCase) bool) {
		var rec func(prefix []hx.Req, depth int) bool
		rec = func(prefix []hx.Req, depth int) bool {
			if len(prefix) > 0 {
				for _, aw := range []bool{false, true} {
					c := hx.SessionCase{Tree: c03FixtureTree(), AllowWrite: aw, Reqs: append([]hx.Req{}, prefix...), Transport: "sync"}
					if !yield(c) {
						return false
					}
				}
			}
			if depth == maxLen {
				return true
			}
			for _, a := range alpha {
				if !rec(append(prefix, a), depth+1) {
					return false
				}
			}
			return true
		}
		if !rec(nil, 0) || hx.Thorough() {
			return
		}
		// quick tier: one request deeper inside each state component (directory, read file, write file), whose
		// requests are the ones that interact through the connection's state
		comp := map[string][]hx.Req{}
		for _, a := range alpha {
			switch a.Op {
			case "OPEN_DIR", "READ_DIR", "READ_ENTRY", "READ_ENTRY2":
				comp["dir"] = append(comp["dir"], a)
			case "OPEN_FILE", "READ_FILE", "READ_CRIT", "READ_CD":
				comp["ro"] = append(comp["ro"], a)
				if a.Path == "/CLOSEFILE" {
					comp["wo"] = append(comp["wo"], a)
				}
			case "CREATE", "WRITE", "DELETE":
				comp["wo"] = append(comp["wo"], a)
			}
		}
		for _, k := range []string{"dir", "ro", "wo"} {
			sub := comp[k]
			for _, a := range sub {
				for _, b := range sub {
					for _, c3 := range sub {
						for _, aw := range []bool{false, true} {
							if !aw && k != "wo" {
								continue
							}
							if !yield(hx.SessionCase{Tree: c03FixtureTree(), AllowWrite: aw, Reqs: []hx.Req{a, b, c3}, Transport: "sync"}) {
								return
							}
						}
					}
				}
			}
		}
	}
	hx.RunCases(t, st, cases, runC03, hx.PropOpts{WriteAhead: true})
}

// TestC03Trunc: every truncation point of every alphabet request, after every
// single-request prefix state.
func TestC03Trunc(t *testing.T) {
	st := hx.NewStats("C03", "trunc")
	alpha := c03Alphabet()
	st.MarkExhaustive("every truncation point (1..len-1 bytes) of every alphabet request, alone and after OPEN_FILE / CREATE")
	cases := func(yield func(hx.SessionCase) bool) {
		prefixes := [][]hx.Req{nil, {{Op: "OPEN_FILE", Path: "/f1"}}, {{Op: "CREATE", Path: "/new.bin"}}}
		for _, pre := range prefixes {
			for _, a := range alpha {
				if a.Op == "UNKNOWN" {
					continue
				}
				full := len(a.Encode())
				for cut := 1; cut < full; cut++ {
					r := a
					r.Short = cut
					c := hx.SessionCase{Tree: c03FixtureTree(), AllowWrite: true, Reqs: append(append([]hx.Req{}, pre...), r), Transport: "sync"}
					if !yield(c) {
						return
					}
				}
			}
		}
	}
	hx.RunCases(t, st, cases, runC03, hx.PropOpts{WriteAhead: true})
}

func genC03Req(t *rapid.T, pool hx.PathPool, sizes []int64, label string) hx.Req {
	op := rapid.SampledFrom([]string{
		"OPEN_DIR", "OPEN_DIR", "READ_DIR", "READ_ENTRY", "READ_ENTRY", "READ_ENTRY2", "READ_ENTRY2", "STAT", "OPEN_FILE", "OPEN_FILE", "OPEN_FILE",
		"READ_FILE", "READ_FILE", "READ_CRIT", "READ_CD", "CREATE", "WRITE", "WRITE", "DELETE", "MKDIR", "RMDIR", "DIR_SIZE", "CLOSEFILE", "UNKNOWN",
	}).Draw(t, label+"-op")
	switch op {
	case "CLOSEFILE":
		return hx.Req{Op: "OPEN_FILE", Path: hx.BStr(rapid.SampledFrom([]string{"/CLOSEFILE", "CLOSEFILE", "/d1/CLOSEFILE", "/x/../CLOSEFILE"}).Draw(t, label+"-cf"))}
	case "READ_FILE", "READ_CRIT":
		size := int64(5000)
		if len(sizes) > 0 {
			size = rapid.SampledFrom(sizes).Draw(t, label+"-sz")
		}
		off, n := hx.GenReadRange(t, size, label)
		if n > 400000 {
			n = 400000
		}
		if op == "READ_CRIT" && rapid.IntRange(0, 3).Draw(t, label+"-sat") > 0 && int64(off)+int64(n) > size {
			// mostly satisfiable, so that histories continue
			if int64(off) > size {
				off = uint64(size)
			}
			n = uint32(size - int64(off))
		}
		return hx.Req{Op: op, N: n, Off: off}
	case "READ_CD":
		return hx.Req{Op: op, Start: uint32(rapid.IntRange(0, 3).Draw(t, label+"-s")), Count: uint32(rapid.IntRange(0, 2).Draw(t, label+"-c"))}
	case "WRITE":
		n := rapid.SampledFrom([]int{0, 1, 16, 17, 4096, 65535, 65536, 65537, 140000}).Draw(t, label+"-n")
		return hx.Req{Op: op, N: uint32(n), Seed: rapid.Uint64Range(1, 1<<40).Draw(t, label+"-seed")}
	case "READ_DIR", "READ_ENTRY", "READ_ENTRY2":
		return hx.Req{Op: op}
	case "UNKNOWN":
		if rapid.IntRange(0, 3).Draw(t, label+"-rare") != 0 {
			return hx.Req{Op: "STAT", Path: hx.BStr(hx.GenInsidePath(t, pool, label))}
		}
		return hx.Req{Op: op, N: uint32(rapid.SampledFrom([]int{0, 1, 0x1223, 0x1233, 0x2412, 0xffff}).Draw(t, label+"-code"))}
	default:
		p := hx.GenInsidePath(t, pool, label)
		if rapid.IntRange(0, 40).Draw(t, label+"-long") == 0 {
			p = "/" + string(make([]byte, 0)) + fmt.Sprintf("%065000d", 7) // very long missing name
		}
		return hx.Req{Op: op, Path: hx.BStr(p)}
	}
}

func genC03Session(t *rapid.T) hx.SessionCase {
	tree := hx.GenTree(t, hx.TreeOpts{MaxDepth: 2, MaxEntries: 5, MaxTotal: 14, MaxFile: 150000, Symlinks: true})
	pool := hx.PoolOf(tree)
	var sizes []int64
	tree.Walk(func(rel string, n *hx.Node) {
		if n.Kind == "file" {
			sizes = append(sizes, n.Size)
		}
	})
	n := rapid.IntRange(1, 40).Draw(t, "nreq")
	reqs := make([]hx.Req, 0, n)
	for i := 0; i < n; i++ {
		reqs = append(reqs, genC03Req(t, pool, sizes, fmt.Sprintf("r%d", i)))
	}
	c := hx.SessionCase{Tree: tree, AllowWrite: rapid.Bool().Draw(t, "allow_write"), Reqs: reqs,
		Transport: rapid.SampledFrom([]string{"sync", "sync", "pipelined", "pipelined", "split"}).Draw(t, "transport")}
	if c.Transport == "split" {
		c.SplitAt = rapid.IntRange(0, 64).Draw(t, "split_at")
	}
	if rapid.IntRange(0, 9).Draw(t, "cut-last") == 0 {
		last := &c.Reqs[len(c.Reqs)-1]
		if l := len(last.Encode()); l > 1 && last.Op != "UNKNOWN" {
			last.Short = rapid.IntRange(1, l-1).Draw(t, "cut")
		}
	}
	return c
}

// TestC03Random: random histories over all opcodes and argument values.
func TestC03Random(t *testing.T) {
	st := hx.NewStats("C03", "random")
	hx.RunProp(t, st, genC03Session, runC03, hx.PropOpts{WriteAhead: true})
}
