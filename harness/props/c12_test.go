package props

import (
	"encoding/hex"
	"fmt"
	"os"
	"path/filepath"
	"runtime"
	"strings"
	"sync"
	"testing"

	"pgregory.net/rapid"

	"github.com/xakep666/ps3netsrv-go/verif/hx"
	"github.com/xakep666/ps3netsrv-go/verif/refcrypt"
)

// ---- C12: connections are isolated from each other under concurrency ---------------------

type c12Client struct {
	Reqs []hx.Req `json:"reqs"`
	// Reconnect: split the history over two connections at this request index (0 = no churn)
	Reconnect int `json:"reconnect,omitempty"`
}

type c12Case struct {
	Procs   int         `json:"procs"`
	Clients []c12Client `json:"clients"`
	// Hot: index of the object most opens of all clients go to (-1: none). State shared between the views of ONE
	// object shows only while several connections are inside it at the same time.
	Hot int `json:"hot"`
}

// the encrypted image: 300 sectors, all but 19 of them encrypted
const c12EncSectors = 300

var c12EncRegions = []refcrypt.Region{{Start: 0, End: 3}, {Start: 9, End: 12}, {Start: 290, End: 299}}


func c12Tree(nclients int) *hx.Node {
	enc := hx.PRFBytes(881, 0, c12EncSectors*2048)
	copy(enc, refcrypt.EncodeTable(c12EncRegions))
	priv := hx.Dir("priv")
	for i := 0; i < nclients; i++ {
		priv.Children = append(priv.Children, hx.Dir(fmt.Sprintf("c%d", i), hx.File("seed.bin", 100, uint64(200+i))))
	}
	return hx.Dir("",
		hx.Dir("shared", hx.File("big.bin", 400000, 91), hx.File("mid.bin", 70000, 92), hx.File("small.bin", 300, 93), hx.Dir("sub", hx.File("x", 5, 94), hx.File("y", 4097, 95))),
		hx.Dir("GAME", hx.File("A.BIN", 200000, 96), hx.File("B.BIN", 66000, 97), hx.Dir("SUB", hx.File("C.BIN", 3000, 98))),
		hx.Dir("PS3ISO", hx.RawFile("e.iso", enc), hx.RawFile("e.dkey", []byte(hex.EncodeToString(c11KeyA)))),
		c12CDs(),
		priv,
	)
}

// c12CDs: raw CD images inside the sector-size detection window, one per sector size: the per-connection
// sector size must not be influenced by what other connections open at the same moment.
func c12CDs() *hx.Node {
	d := hx.Dir("cd")
	for i, s := range []int{2048, 2352, 2448, 2336} {
		n := &hx.Node{Name: fmt.Sprintf("cd%d.bin", s), Kind: "file", Size: 0x220000, Seed: uint64(7000 + i), Sparse: true, NoDefaultIslands: true,
			Spans: [][2]int64{{0, int64(24 + 230*2448)}}}
		sig := int64(24 + 16*s)
		if i%2 == 0 {
			n.Patches = []hx.Patch{{Off: sig, Data: "\x01CD001\x01\x00"}}
		} else {
			n.Patches = []hx.Patch{{Off: sig + 8, Data: "PLAYSTATION "}}
		}
		d.Children = append(d.Children, n)
	}
	return d
}

func c12EncObj() hx.Obj {
	enc := hx.PRFBytes(881, 0, c12EncSectors*2048)
	tab := refcrypt.Table{Plain: c12EncRegions, Bytes: 32}
	copy(enc, refcrypt.EncodeTable(tab.Plain))
	a, _ := refcrypt.Plaintext(enc, c11KeyA, tab, false, false)
	b, _ := refcrypt.Plaintext(enc, c11KeyA, tab, false, true)
	return hx.MultiObj{a, b}
}

func genC12Client(t *rapid.T, idx int, l string, hot int) c12Client {
	var reqs []hx.Req
	priv := fmt.Sprintf("/priv/c%d", idx)
	objs := []struct {
		path string
		size int64
	}{{"/shared/big.bin", 400000}, {"/shared/mid.bin", 70000}, {"/shared/small.bin", 300}, {"/***DVD***/GAME", 400000}, {"/PS3ISO/e.iso", c12EncSectors * 2048},
		{"/cd/cd2048.bin", 400000}, {"/cd/cd2352.bin", 400000}, {"/cd/cd2448.bin", 400000}, {"/cd/cd2336.bin", 400000}}
	cur := -1
	n := rapid.IntRange(3, 25).Draw(t, l+"-n")
	for i := 0; i < n; i++ {
		li := fmt.Sprintf("%s-%d", l, i)
		k := rapid.IntRange(0, 14).Draw(t, li+"-k")
		switch {
		case cur < 0 || k == 0 || k == 13:
			cur = rapid.IntRange(0, len(objs)-1).Draw(t, li+"-obj")
			if hot >= 0 && rapid.IntRange(0, 4).Draw(t, li+"-hot") > 0 {
				cur = hot
			}
			reqs = append(reqs, hx.Req{Op: "OPEN_FILE", Path: hx.BStr(objs[cur].path)})
		case k <= 6:
			size := objs[cur].size
			off := rapid.Int64Range(0, size).Draw(t, li+"-off")
			nn := rapid.SampledFrom([]int64{100, 2048, 65536, 131072, 200000, 400000}).Draw(t, li+"-len")
			op := rapid.SampledFrom([]string{"READ_FILE", "READ_CRIT"}).Draw(t, li+"-op")
			if op == "READ_CRIT" && off+nn > size {
				nn = size - off
			}
			if objs[cur].path == "/***DVD***/GAME" {
				// announced size is only known at run time: keep critical reads well inside
				if off+nn > 300000 {
					off, nn = 0, 131072
				}
			}
			reqs = append(reqs, hx.Req{Op: op, N: uint32(nn), Off: uint64(off)})
		case k == 7:
			reqs = append(reqs, hx.Req{Op: "OPEN_DIR", Path: hx.BStr(rapid.SampledFrom([]string{"/shared", "/shared/sub", "/GAME", priv}).Draw(t, li+"-dir"))})
		case k == 8:
			reqs = append(reqs, hx.Req{Op: rapid.SampledFrom([]string{"READ_ENTRY", "READ_ENTRY2", "READ_DIR"}).Draw(t, li+"-ls")})
		case k == 9:
			reqs = append(reqs, hx.Req{Op: "CREATE", Path: hx.BStr(priv + "/" + hx.GenName(t, "portable", li+"-nm"))},
				hx.Req{Op: "WRITE", N: uint32(rapid.SampledFrom([]int{10, 65536, 140000}).Draw(t, li+"-wn")), Seed: rapid.Uint64Range(1, 1<<30).Draw(t, li+"-ws")})
		case k == 10:
			reqs = append(reqs, hx.Req{Op: rapid.SampledFrom([]string{"MKDIR", "DELETE", "RMDIR"}).Draw(t, li+"-mut"), Path: hx.BStr(priv + "/" + rapid.SampledFrom([]string{"d", "seed.bin", "e"}).Draw(t, li+"-mp"))})
		case k == 11 || (k <= 3 && strings.HasPrefix(objs[cur].path, "/cd/")):
			reqs = append(reqs, hx.Req{Op: "READ_CD", Start: uint32(rapid.IntRange(0, 200).Draw(t, li+"-cs")), Count: uint32(rapid.IntRange(1, 4).Draw(t, li+"-cc"))})
		case k == 12:
			reqs = append(reqs, hx.Req{Op: "OPEN_FILE", Path: "/CLOSEFILE"})
			cur = -1
		default:
			reqs = append(reqs, hx.Req{Op: rapid.SampledFrom([]string{"STAT", "DIR_SIZE"}).Draw(t, li+"-so"), Path: hx.BStr(rapid.SampledFrom([]string{"/shared/big.bin", "/shared", "/GAME", priv, "/nope"}).Draw(t, li+"-sp"))})
		}
	}
	c := c12Client{Reqs: reqs}
	if rapid.IntRange(0, 3).Draw(t, l+"-churn") == 0 {
		c.Reconnect = rapid.IntRange(1, len(reqs)).Draw(t, l+"-at")
	}
	return c
}

func genC12(t *rapid.T) c12Case {
	c := c12Case{Procs: rapid.SampledFrom([]int{1, 2, 4, 16}).Draw(t, "procs")}
	n := rapid.SampledFrom([]int{2, 2, 3, 4, 8, 16}).Draw(t, "clients")
	if hx.Thorough() && rapid.IntRange(0, 9).Draw(t, "many") == 0 {
		n = rapid.SampledFrom([]int{32, 64}).Draw(t, "clients-many")
	}
	c.Hot = -1
	if rapid.IntRange(0, 2).Draw(t, "hotcase") == 0 {
		// 0 big.bin, 3 the generated image, 4 the encrypted image, 5.. the CD images
		c.Hot = rapid.SampledFrom([]int{4, 4, 3, 3, 0, 5, 6, 7}).Draw(t, "hot")
		if n < 4 {
			n = 4
		}
	}
	for i := 0; i < n; i++ {
		c.Clients = append(c.Clients, genC12Client(t, i, fmt.Sprintf("c%d", i), c.Hot))
	}
	return c
}

func runC12(c c12Case, st *hx.Stats) error {
	root, err := hx.Scratch("c12")
	if err != nil {
		return err
	}
	defer os.RemoveAll(root)
	if err := hx.Materialize(root, c12Tree(len(c.Clients))); err != nil {
		return err
	}
	prev := runtime.GOMAXPROCS(c.Procs)
	defer runtime.GOMAXPROCS(prev)
	tg, err := hx.StartInproc(root, hx.InprocOpts{AllowWrite: true})
	if err != nil {
		return err
	}
	defer tg.Close()
	encObj := c12EncObj()
	errs := make([]error, len(c.Clients))
	var wg sync.WaitGroup
	start := make(chan struct{})
	for i := range c.Clients {
		wg.Add(1)
		go func(i int) {
			defer wg.Done()
			<-start
			cl := c.Clients[i]
			parts := [][]hx.Req{cl.Reqs}
			if cl.Reconnect > 0 && cl.Reconnect < len(cl.Reqs) {
				parts = [][]hx.Req{cl.Reqs[:cl.Reconnect], cl.Reqs[cl.Reconnect:]}
			}
			for _, part := range parts {
				conn, err := hx.Dial(tg.Addr)
				if err != nil {
					errs[i] = err
					return
				}
				m := hx.NewModel(root, true)
				m.MaskATime = true
				m.SnapRoot = filepath.Join(root, "priv", fmt.Sprintf("c%d", i))
				m.ObjFor = func(clean string) hx.Obj {
					if clean == "/PS3ISO/e.iso" {
						return encObj
					}
					return nil
				}
				for j, r := range part {
					if m.Ended {
						break
					}
					if err := m.Step(conn, r); err != nil {
						if f, ok := err.(*hx.Fail); ok {
							errs[i] = &hx.Fail{Clause: f.Clause, Msg: fmt.Sprintf("client %d of %d (GOMAXPROCS %d) request #%d: %s [this client's history: %s]", i, len(c.Clients), c.Procs, j, f.Msg, m.Dump())}
						} else {
							errs[i] = fmt.Errorf("client %d request #%d: %w [history: %s]", i, j, err, m.Dump())
						}
						conn.Close()
						return
					}
				}
				if !m.Ended {
					if err := conn.ExpectEnd(); err != nil {
						errs[i] = fmt.Errorf("client %d: %w", i, err)
					}
				}
				conn.Close()
			}
		}(i)
	}
	close(start)
	wg.Wait()
	// classification
	bigReaders := map[string]int{}
	for _, cl := range c.Clients {
		obj := ""
		seen := map[string]bool{}
		for _, r := range cl.Reqs {
			switch r.Op {
			case "OPEN_FILE":
				obj = string(r.Path)
			case "READ_FILE", "READ_CRIT":
				if r.N > 65536 && obj != "" && !seen[obj] {
					seen[obj] = true
					bigReaders[obj]++
				}
			}
		}
	}
	overl := false
	for o, n := range bigReaders {
		if n >= 2 {
			overl = true
			st.Label("object read by >= 2 clients with transfers > one buffer: " + o)
		}
	}
	st.Label(fmt.Sprintf("clients=%d", len(c.Clients)), fmt.Sprintf("GOMAXPROCS=%d", c.Procs))
	if c.Hot >= 0 {
		st.Label(fmt.Sprintf("most opens of all clients go to one object (#%d)", c.Hot))
	}
	if overl {
		total := 0
		for _, cl := range c.Clients {
			total += len(cl.Reqs)
		}
		st.NT(fmt.Sprintf("%d|%d|%d|%v", len(c.Clients), c.Procs, total, bigReaders))
	}
	st.Sample(map[string]any{"clients": len(c.Clients), "procs": c.Procs, "first_client": reqStrings(c.Clients[0].Reqs[:min(len(c.Clients[0].Reqs), 10)])})
	for _, e := range errs {
		if e != nil {
			return e
		}
	}
	return nil
}

func TestC12Concurrent(t *testing.T) {
	st := hx.NewStats("C12", "concurrent")
	hx.RunProp(t, st, genC12, func(c c12Case, st *hx.Stats) error {
		err := runC12(c, st)
		if err != nil && isTimeoutErr(err) {
			if err2 := runC12(c, nil); err2 == nil || !isTimeoutErr(err2) {
				st.Inconcl()
				return err2
			}
			return hx.Failf("no-hang", "a client got no complete reply, twice: %v", err)
		}
		return err
	}, hx.PropOpts{WriteAhead: true})
}

// TestC12Race is the same property in the -race build (the driver builds this unit with the race detector).
func TestC12Race(t *testing.T) {
	st := hx.NewStats("C12", "race")
	hx.RunProp(t, st, genC12, runC12, hx.PropOpts{WriteAhead: true})
}
