package props

import (
	"fmt"
	"testing"

	"pgregory.net/rapid"

	"github.com/xakep666/ps3netsrv-go/verif/hx"
)

// ---- C17: PSX CD sector reads ----------------------------------------------------------

var cdSectorSizes = []int{2048, 2328, 2336, 2340, 2352, 2368, 2448}

type c17Image struct {
	Name   string `json:"name"`
	Sector int    `json:"sector"`
	Sig    string `json:"sig"` // cd001 | playstation | none
	Size   int64  `json:"size"`
}

type c17Case struct {
	Images []c17Image `json:"images"`
	Reqs   []hx.Req   `json:"reqs"`
	Which  []int      `json:"which"` // image index each request refers to (for span generation); -1 none
}

func (c c17Case) tree() *hx.Node {
	root := hx.Dir("")
	for i, im := range c.Images {
		n := &hx.Node{Name: im.Name, Kind: "file", Size: im.Size, Seed: uint64(3000 + i), Sparse: true}
		sigOff := int64(24 + 16*im.Sector)
		switch im.Sig {
		case "cd001":
			n.Patches = append(n.Patches, hx.Patch{Off: sigOff, Data: "\x01CD001\x01\x00"})
		case "playstation":
			n.Patches = append(n.Patches, hx.Patch{Off: sigOff + 8, Data: "PLAYSTATION "})
		}
		// PRF data wherever this case reads (and a little around it), for every candidate sector size
		n.Spans = append(n.Spans, [2]int64{sigOff - 64, sigOff + 16*2448})
		for j, r := range c.Reqs {
			if (r.Op == "READ_FILE" || r.Op == "READ_CRIT") && c.Which[j] == i {
				// byte reads on the same handle (they move the file between two sector reads)
				n.Spans = append(n.Spans, [2]int64{int64(r.Off) - 4096, int64(r.Off) + int64(r.N) + 2*2448})
				continue
			}
			if r.Op != "READ_CD" || c.Which[j] != i {
				continue
			}
			for _, s := range []int{im.Sector, 2352, 2048} {
				a := int64(24) + int64(r.Start)*int64(s)
				b := a + int64(r.Count+1)*int64(s) + 2048
				n.Spans = append(n.Spans, [2]int64{a - 4096, b + 4096})
			}
			// argument mix-ups land here
			n.Spans = append(n.Spans, [2]int64{24 + int64(r.Count)*int64(im.Sector) - 4096, 24 + int64(r.Count+9)*int64(im.Sector) + 4096})
		}
		root.Children = append(root.Children, n)
	}
	return root
}

func genC17(t *rapid.T) c17Case {
	var c c17Case
	nimg := rapid.IntRange(1, 3).Draw(t, "nimg")
	for i := 0; i < nimg; i++ {
		l := fmt.Sprintf("img%d", i)
		s := rapid.SampledFrom(cdSectorSizes).Draw(t, l+"-sector")
		var size int64
		switch rapid.IntRange(0, 9).Draw(t, l+"-sizeclass") {
		case 0:
			size = 0x200000 + int64(rapid.IntRange(-2, 2).Draw(t, l+"-d"))
		case 1:
			size = 0x35000000 + int64(rapid.IntRange(-2, 2).Draw(t, l+"-d"))
		case 2:
			size = int64(rapid.IntRange(20, 800).Draw(t, l+"-small")) * int64(s) // below the window
		case 3:
			size = 0x35000000 + int64(rapid.IntRange(1, 1<<20).Draw(t, l+"-over"))
		case 4:
			// beyond 4 GiB: byte offsets of sectors no longer fit into 32 bits
			size = 1<<32 + int64(rapid.IntRange(1, 300).Draw(t, l+"-gig"))*2352*1000
		default:
			size = int64(rapid.IntRange(0x200000/2048+1, 200000).Draw(t, l+"-sectors")) * int64(s)
			if size > 0x35000000 {
				size = 0x35000000 - int64(s)
			}
		}
		c.Images = append(c.Images, c17Image{Name: fmt.Sprintf("disc%d.bin", i), Sector: s,
			Sig: rapid.SampledFrom([]string{"cd001", "playstation", "cd001", "playstation", "none"}).Draw(t, l+"-sig"), Size: size})
	}
	cur := -1               // image the connection has open
	curName := -1           // under which name it was opened
	at := make([]int, nimg) // at[name index] = image currently stored under that name
	for i := range at {
		at[i] = i
	}
	n := rapid.IntRange(2, 24).Draw(t, "nreq")
	lastEnd := -1 // sector behind the last sector read of the open image (-1: none since it was opened)
	for i := 0; i < n; i++ {
		l := fmt.Sprintf("r%d", i)
		k := rapid.IntRange(0, 14).Draw(t, l+"-k")
		if k != 13 && k != 14 && !(k >= 3 && k <= 11) {
			lastEnd = -1
		}
		switch {
		case (k == 13 || k == 14) && cur >= 0:
			// a byte read on the same handle: it leaves the file somewhere else than the sector reads did
			im := c.Images[cur]
			var off int64
			switch rapid.IntRange(0, 3).Draw(t, l+"-where") {
			case 0:
				off = rapid.Int64Range(0, max(im.Size-1, 0)).Draw(t, l+"-off")
			case 1:
				off = int64(24) + int64(max(lastEnd, 0))*int64(im.Sector) + int64(rapid.IntRange(-2, 2).Draw(t, l+"-d"))*int64(im.Sector)
			case 2:
				off = int64(24) + int64(rapid.IntRange(0, 40).Draw(t, l+"-sec"))*int64(im.Sector)
			default:
				off = int64(rapid.IntRange(0, 1<<20).Draw(t, l+"-low"))
			}
			if off < 0 {
				off = 0
			}
			nb := rapid.SampledFrom([]int{1, 24, 2047, 2048, 2049, 4096, 70000}).Draw(t, l+"-n")
			op := "READ_FILE"
			if k == 14 && off+int64(nb) <= im.Size {
				op = "READ_CRIT"
			}
			c.Reqs = append(c.Reqs, hx.Req{Op: op, N: uint32(nb), Off: uint64(off)})
			c.Which = append(c.Which, cur)
		case k == 12 && nimg > 1 && cur >= 0:
			// the image is replaced under its name (the files exchange their names), then opened again under the same
			// name - mostly without a CLOSEFILE in between
			other := (curName + 1 + rapid.IntRange(0, nimg-2).Draw(t, l+"-other")) % nimg
			c.Reqs = append(c.Reqs, hx.Req{Op: "LOCAL_SWAP", Path: hx.BStr("/" + c.Images[curName].Name), Raw: hx.BStr("/" + c.Images[other].Name)})
			c.Which = append(c.Which, -1)
			at[curName], at[other] = at[other], at[curName]
			if rapid.IntRange(0, 3).Draw(t, l+"-closefirst") == 0 {
				c.Reqs = append(c.Reqs, hx.Req{Op: "OPEN_FILE", Path: "/CLOSEFILE"})
				c.Which = append(c.Which, -1)
			}
			cur = at[curName]
			c.Reqs = append(c.Reqs, hx.Req{Op: "OPEN_FILE", Path: hx.BStr("/" + c.Images[curName].Name)})
			c.Which = append(c.Which, cur)
		case cur < 0 || k == 0:
			curName = rapid.IntRange(0, nimg-1).Draw(t, l+"-img")
			cur = at[curName]
			c.Reqs = append(c.Reqs, hx.Req{Op: "OPEN_FILE", Path: hx.BStr("/" + c.Images[curName].Name)})
			c.Which = append(c.Which, cur)
		case k == 1:
			c.Reqs = append(c.Reqs, hx.Req{Op: "OPEN_FILE", Path: "/CLOSEFILE"})
			c.Which = append(c.Which, -1)
			cur = -1
			// a sector read after CLOSEFILE ends the connection; keep it rare
			if rapid.IntRange(0, 2).Draw(t, l+"-after") == 0 {
				c.Reqs = append(c.Reqs, hx.Req{Op: "READ_CD", Start: 1, Count: 1})
				c.Which = append(c.Which, -1)
			}
		case k == 2:
			c.Reqs = append(c.Reqs, hx.Req{Op: "STAT", Path: hx.BStr("/" + c.Images[0].Name)})
			c.Which = append(c.Which, -1)
		default:
			im := c.Images[cur]
			total := int((im.Size - 24) / int64(im.Sector))
			var start, count int
			geom := rapid.IntRange(0, 11).Draw(t, l+"-geom")
			if lastEnd >= 0 && rapid.IntRange(0, 2).Draw(t, l+"-cont") > 0 {
				geom = 12 // continue where the previous sector read ended
			}
			switch geom {
			case 12:
				start, count = lastEnd, rapid.IntRange(1, 6).Draw(t, l+"-c")
			case 10, 11:
				// start sectors whose byte offset needs more than 32 bits: inside a > 4 GiB image real data, otherwise far behind EOF
				wrap := int((1<<32)/int64(im.Sector)) + 1
				start = wrap + rapid.SampledFrom([]int{-3, -1, 0, 1, 2, 1000, 250000}).Draw(t, l+"-hi")
				count = rapid.IntRange(1, 4).Draw(t, l+"-c")
				if rapid.IntRange(0, 5).Draw(t, l+"-max") == 0 {
					start = rapid.SampledFrom([]int{0x7fffffff, 0xfffffffe, 0xffffffff}).Draw(t, l+"-smax")
				}
			case 0:
				start, count = rapid.IntRange(0, total).Draw(t, l+"-s"), 0
			case 1:
				// crossing EOF
				start = total - rapid.IntRange(0, 2).Draw(t, l+"-back")
				count = rapid.IntRange(1, 4).Draw(t, l+"-c")
			case 2:
				start, count = rapid.IntRange(0, 40).Draw(t, l+"-s"), rapid.IntRange(1, 8).Draw(t, l+"-c")
			default:
				start = rapid.IntRange(0, max(total-9, 0)).Draw(t, l+"-s")
				count = rapid.IntRange(1, 8).Draw(t, l+"-c")
			}
			if start < 0 {
				start = 0
			}
			c.Reqs = append(c.Reqs, hx.Req{Op: "READ_CD", Start: uint32(start), Count: uint32(count)})
			c.Which = append(c.Which, cur)
			lastEnd = -1
			if int64(24)+int64(start+count)*int64(im.Sector) <= im.Size && start+count < 1<<30 {
				lastEnd = start + count
			}
		}
	}
	return c
}

func runC17(c c17Case, st *hx.Stats) error {
	for j, r := range c.Reqs {
		if r.Op != "READ_CD" || c.Which[j] < 0 {
			continue
		}
		im := c.Images[c.Which[j]]
		st.Label(fmt.Sprintf("sector=%d", im.Sector), "sig="+im.Sig)
		inWindow := im.Size >= 0x200000 && im.Size <= 0x35000000
		if inWindow {
			st.Label("image inside the detection window")
		} else {
			st.Label("image outside the detection window")
		}
		if r.Count == 0 {
			st.Label("count 0")
		}
		if int64(r.Start)*int64(im.Sector) >= 1<<32 {
			st.Label("start sector beyond the 32-bit byte offset")
			st.NT(fmt.Sprintf("hi|%d|%d|%d|%d", im.Sector, im.Size, r.Start, r.Count))
		}
		if int64(24)+int64(r.Start+r.Count)*int64(im.Sector) > im.Size {
			st.Label("range crosses EOF")
		}
		if r.Start != r.Count && im.Sector != 2048 && im.Sector != 2352 && im.Sig != "none" && inWindow {
			st.NT(fmt.Sprintf("%d|%s|%d|%d|%d", im.Sector, im.Sig, im.Size, r.Start, r.Count))
		}
	}
	if len(c.Images) > 1 {
		st.Label("several images of different sector size on one connection")
	}
	lastCD, between := -1, false
	for j, r := range c.Reqs {
		switch {
		case r.Op == "READ_CD" && c.Which[j] >= 0:
			if lastCD >= 0 && between && int(r.Start) == lastCD {
				st.Label("sector read continuing the previous one after a byte read on the same handle")
				st.NT(fmt.Sprintf("cont|%d|%d|%d", c.Images[c.Which[j]].Sector, r.Start, r.Count))
			}
			lastCD, between = int(r.Start+r.Count), false
		case r.Op == "READ_FILE" || r.Op == "READ_CRIT":
			between = true
		default:
			lastCD = -1
		}
	}
	for _, r := range c.Reqs {
		if r.Op == "LOCAL_SWAP" {
			st.Label("image replaced under its name and opened again")
			break
		}
	}
	st.Sample(map[string]any{"images": c.Images, "reqs": reqStrings(c.Reqs[:min(len(c.Reqs), 12)])})
	sc := hx.SessionCase{Tree: c.tree(), Reqs: c.Reqs, Transport: "sync"}
	return hx.RunSession(sc, st, hx.SessionHooks{})
}

func TestC17CD(t *testing.T) {
	st := hx.NewStats("C17", "cd")
	hx.RunProp(t, st, genC17, runC17, hx.PropOpts{WriteAhead: true})
}
