package props

import (
	"bytes"
	"encoding/hex"
	"fmt"
	"io"
	"net"
	"os"
	"path/filepath"
	"strings"
	"testing"

	"github.com/spf13/afero"

	pfs "github.com/xakep666/ps3netsrv-go/pkg/fs"
	"github.com/xakep666/ps3netsrv-go/verif/hx"
	"github.com/xakep666/ps3netsrv-go/verif/refcrypt"
)

// ---- C11: image-kind detection and key discovery ------------------------------------------

type c11Case struct {
	DirName   string `json:"dir"`    // PS3ISO | ps3iso | Ps3Iso | PS3ISOX | GAMES
	Prefix    string `json:"prefix"` // "" or "x" (directory above the PS3ISO element)
	Ext       string `json:"ext"`
	Depth     int    `json:"depth"`               // nesting below the PS3ISO element
	Key       string `json:"key"`                 // none | adjacent | redkey | both | malformed | malformed+redkey | redkey-is-file
	LongName  bool   `json:"long_name,omitempty"` // the image's name has 255 bytes: no key file can exist beside it
	Watermark string `json:"watermark"`
	Length    int    `json:"length"`
	Seed      uint64 `json:"seed"`
	Net       bool   `json:"net"`
	// FirstEnd: end of the first plain region when it is not 3 (1 or 2: sectors 1/2, which hold the 3k3y area, are then
	// encrypted sectors - the area is read as zeros all the same, and the bytes behind it decrypt as everywhere)
	FirstEnd int `json:"first_end,omitempty"`
}

func (c c11Case) table() []refcrypt.Region {
	if c.FirstEnd > 0 {
		return []refcrypt.Region{{Start: 0, End: uint32(c.FirstEnd)}, {Start: 5, End: 7}}
	}
	return c11Table
}

var (
	c11KeyA   = []byte{0x10, 0x21, 0x32, 0x43, 0x54, 0x65, 0x76, 0x87, 0x98, 0xa9, 0xba, 0xcb, 0xdc, 0xed, 0xfe, 0x0f}
	c11KeyR   = []byte{0xf0, 0xe1, 0xd2, 0xc3, 0xb4, 0xa5, 0x96, 0x87, 0x78, 0x69, 0x5a, 0x4b, 0x3c, 0x2d, 0x1e, 0x0f}
	c11KeyEmb = []byte{0x5a, 0x5a, 0x01, 0x02, 0x03, 0x04, 0x05, 0x06, 0x07, 0x08, 0x09, 0x0a, 0x0b, 0x0c, 0x0d, 0x0e}
	wmEnc     = []byte{0x44, 0x6E, 0x63, 0x72, 0x79, 0x70, 0x74, 0x65, 0x64, 0x20, 0x33, 0x4B, 0x20, 0x42, 0x4C, 0x44}
	wmDec     = []byte{0x45, 0x6E, 0x63, 0x72, 0x79, 0x70, 0x74, 0x65, 0x64, 0x20, 0x33, 0x4B, 0x20, 0x42, 0x4C, 0x44}
	c11Table  = []refcrypt.Region{{Start: 0, End: 3}, {Start: 5, End: 7}}
)

func (c c11Case) relDir() string {
	p := c.DirName
	if c.Prefix != "" {
		p = c.Prefix + "/" + p
	}
	for i := 0; i < c.Depth; i++ {
		p += fmt.Sprintf("/n%d", i)
	}
	return p
}

func (c c11Case) baseName() string {
	if c.LongName {
		return strings.Repeat("g", 255-len(c.Ext))
	}
	return "g"
}

func (c c11Case) redkeyDir() string {
	p := "REDKEY"
	if c.Prefix != "" {
		p = c.Prefix + "/REDKEY"
	}
	for i := 0; i < c.Depth; i++ {
		p += fmt.Sprintf("/n%d", i)
	}
	return p
}

func (c c11Case) stored() []byte {
	data := hx.PRFBytes(c.Seed, 0, c.Length)
	copy(data, refcrypt.EncodeTable(c.table()))
	put := func(off int, b []byte) {
		if off < len(data) {
			copy(data[off:], b)
		}
	}
	switch c.Watermark {
	case "enc":
		put(0xF70, wmEnc)
		put(0xF80, c11KeyEmb)
	case "dec":
		put(0xF70, wmDec)
	}
	return data
}

func mask3k3y(b []byte) []byte {
	out := append([]byte(nil), b...)
	for i := 0xF70; i < 0x1070 && i < len(out); i++ {
		out[i] = 0
	}
	return out
}

// c11Expected: the harness's own decision table (from the property text). Returns the admissible
// views; mayFail = opening may legitimately fail.
func c11Expected(c c11Case, stored []byte) (views [][]byte, labels []string, mayFail bool) {
	tab := refcrypt.Table{Plain: c.table(), Bytes: 8 + 8*len(c.table())}
	dec := func(key []byte) [][]byte {
		a, _ := refcrypt.Plaintext(stored, key, tab, false, false)
		b, _ := refcrypt.Plaintext(stored, key, tab, false, true)
		return [][]byte{a, b}
	}
	isIso := strings.ToLower(c.Ext) == ".iso"
	inPS3ISO := strings.ToLower(c.DirName) == "ps3iso"
	wm := c.Watermark
	if c.Length < 0x1070 {
		wm = "none" // the 256-byte area is not completely there: not recognisable
	}
	by3k3y := func() ([][]byte, string) {
		switch wm {
		case "enc":
			var vs [][]byte
			for _, v := range dec(c11KeyEmb) {
				vs = append(vs, mask3k3y(v))
			}
			return vs, "3k3y embedded key + mask"
		case "dec":
			return [][]byte{mask3k3y(stored)}, "mask only"
		}
		return [][]byte{stored}, "identity"
	}
	if isIso && inPS3ISO {
		switch c.Key {
		case "adjacent", "both":
			vs := dec(c11KeyA)
			if wm != "none" { // key file applies AND watermark: masking is a don't-care
				vs = append(vs, mask3k3y(vs[0]), mask3k3y(vs[1]))
			}
			return vs, []string{"adjacent key"}, false
		case "redkey", "adjacent-is-dir+redkey", "adjacent-is-loop+redkey", "adjacent-is-socket+redkey":
			vs := dec(c11KeyR)
			if wm != "none" {
				vs = append(vs, mask3k3y(vs[0]), mask3k3y(vs[1]))
			}
			return vs, []string{"REDKEY key"}, false
		case "malformed", "malformed+redkey":
			// open fails, or any other documented source is used; never garbage
			var vs [][]byte
			if c.Key == "malformed+redkey" {
				vs = append(vs, dec(c11KeyR)...)
			}
			v3, _ := by3k3y()
			vs = append(vs, v3...)
			return vs, []string{"malformed adjacent key"}, true
		}
	}
	vs, l := by3k3y()
	return vs, []string{l}, false
}

func c11Build(c c11Case) (root, rel string, err error) {
	root, err = hx.Scratch("c11")
	if err != nil {
		return
	}
	dir := filepath.Join(root, filepath.FromSlash(c.relDir()))
	if err = os.MkdirAll(dir, 0o755); err != nil {
		return
	}
	rel = "/" + c.relDir() + "/" + c.baseName() + c.Ext
	if err = os.WriteFile(filepath.Join(root, filepath.FromSlash(rel)), c.stored(), 0o644); err != nil {
		return
	}
	writeKey := func(d string, content []byte) error {
		if err := os.MkdirAll(d, 0o755); err != nil {
			return err
		}
		return os.WriteFile(filepath.Join(d, "g.dkey"), content, 0o644)
	}
	hexKey := func(k []byte) []byte { return []byte(hex.EncodeToString(k)) }
	rk := filepath.Join(root, filepath.FromSlash(c.redkeyDir()))
	if c.Prefix != "" && strings.Contains(c.Prefix, c.DirName) {
		// decoy: a (wrong) key where replacing text instead of the path element would look for it
		decoy := filepath.Join(root, filepath.FromSlash(strings.Replace(c.relDir(), c.DirName, "REDKEY", 1)))
		if err = writeKey(decoy, hexKey(c11KeyEmb)); err != nil {
			return
		}
	}
	switch c.Key {
	case "adjacent":
		err = writeKey(dir, hexKey(c11KeyA))
	case "redkey":
		err = writeKey(rk, hexKey(c11KeyR))
	case "both":
		if err = writeKey(dir, hexKey(c11KeyA)); err == nil {
			err = writeKey(rk, hexKey(c11KeyR))
		}
	case "malformed":
		err = writeKey(dir, []byte("zz-not-hex"))
	case "malformed+redkey":
		if err = writeKey(dir, []byte("0011")); err == nil {
			err = writeKey(rk, hexKey(c11KeyR))
		}
	case "adjacent-is-dir":
		// a directory that happens to be called like the key file is no key file
		err = os.MkdirAll(filepath.Join(dir, c.baseName()+".dkey"), 0o755)
	case "adjacent-is-dir+redkey":
		if err = os.MkdirAll(filepath.Join(dir, c.baseName()+".dkey"), 0o755); err == nil {
			err = writeKey(rk, hexKey(c11KeyR))
		}
	case "adjacent-is-loop", "adjacent-is-loop+redkey", "adjacent-is-socket", "adjacent-is-socket+redkey":
		// other things that can be called like the key file without being one: a symbolic link that resolves to
		// nothing (itself), a unix socket
		kp := filepath.Join(dir, c.baseName()+".dkey")
		if strings.Contains(c.Key, "loop") {
			err = os.Symlink(c.baseName()+".dkey", kp)
		} else {
			var l net.Listener
			if l, err = net.Listen("unix", kp); err == nil {
				l.(*net.UnixListener).SetUnlinkOnClose(false)
				l.Close()
			}
		}
		if err == nil && strings.HasSuffix(c.Key, "+redkey") {
			err = writeKey(rk, hexKey(c11KeyR))
		}
	case "redkey-is-file":
		// something else is called REDKEY: there is no key then, the image is served by its own content
		top := filepath.Join(root, "REDKEY")
		if c.Prefix != "" {
			top = filepath.Join(root, c.Prefix, "REDKEY")
		}
		if err = os.MkdirAll(filepath.Dir(top), 0o755); err == nil {
			err = os.WriteFile(top, []byte("not a directory"), 0o644)
		}
	}
	return
}

var c11Windows = [][2]int{{0, 64}, {0xF60, 0x20}, {0xF6F, 2}, {0xF70, 1}, {0xF70, 256}, {0xF7F, 0x12}, {0x1000, 0x71}, {0x106F, 2}, {0x1070, 16}, {0x800, 0x1000}, {6143, 3}, {6144, 2048}, {8000, 5000}}

func runC11(c c11Case, st *hx.Stats) error {
	stored := c.stored()
	views, labels, mayFail := c11Expected(c, stored)
	st.Label("expected: " + labels[0])
	applies := 0
	isIso := strings.ToLower(c.Ext) == ".iso" && strings.ToLower(c.DirName) == "ps3iso"
	if isIso && (c.Key == "adjacent" || c.Key == "both" || c.Key == "malformed" || c.Key == "malformed+redkey") {
		applies++
	}
	if isIso && (c.Key == "redkey" || c.Key == "both" || c.Key == "malformed+redkey") {
		applies++
	}
	if c.Watermark != "none" && c.Length >= 0x1070 {
		applies++
	}
	if applies >= 2 {
		st.Label(">= 2 sources apply (precedence visible)")
	}
	st.NT(fmt.Sprintf("%s|%s|%s|%d|%s|%s|%d|%v", c.DirName, c.Prefix, c.Ext, c.Depth, c.Key, c.Watermark, c.Length, c.Net))
	root, rel, err := c11Build(c)
	if root != "" {
		defer os.RemoveAll(root)
	}
	if err != nil {
		return err
	}
	st.Sample(map[string]any{"path": rel, "key": c.Key, "watermark": c.Watermark, "length": c.Length, "net": c.Net, "expected": labels[0]})
	fsys := &pfs.FS{Fs: afero.NewBasePathFs(afero.NewOsFs(), root)}
	matchAny := func(got []byte) int {
		for i, v := range views {
			if bytes.Equal(v, got) {
				return i
			}
		}
		return -1
	}
	var whole []byte
	if c.Net {
		tg, err := hx.StartInprocFs(afero.NewBasePathFs(afero.NewOsFs(), root), hx.InprocOpts{})
		if err != nil {
			return err
		}
		defer tg.Close()
		conn, err := hx.Dial(tg.Addr)
		if err != nil {
			return err
		}
		defer conn.Close()
		m := hx.NewModel(root, false)
		var chosen []byte
		m.ObjFor = func(clean string) hx.Obj {
			if chosen == nil {
				return hx.SizedObj{N: int64(len(stored))}
			}
			return hx.BytesObj(chosen)
		}
		// first pass: fetch the whole view with the ordinary read, length-checked by the model
		if err := conn.Send(hx.Req{Op: "OPEN_FILE", Path: hx.BStr(rel)}.Encode()); err != nil {
			return err
		}
		rep, closed, err := conn.ReadN(16)
		if err != nil || closed {
			return hx.Failf("reply-layout", "OPEN_FILE: closed=%v err=%v", closed, err)
		}
		var size int64
		for _, b := range rep[:8] {
			size = size<<8 | int64(b)
		}
		if size == -1 {
			if mayFail {
				st.Label("open failed (admissible)")
				return nil
			}
			return hx.Failf("open-succeeds", "OPEN_FILE %s failed", rel)
		}
		if size != int64(len(stored)) {
			return hx.Failf("open-truth", "announced size %d, file has %d", size, len(stored))
		}
		if err := conn.Send(hx.Req{Op: "READ_FILE", N: uint32(len(stored) + 10), Off: 0}.Encode()); err != nil {
			return err
		}
		hdr, closed, err := conn.ReadN(4)
		if err != nil || closed {
			return hx.Failf("reply-layout", "READ_FILE: closed=%v err=%v", closed, err)
		}
		k := int(uint32(hdr[0])<<24 | uint32(hdr[1])<<16 | uint32(hdr[2])<<8 | uint32(hdr[3]))
		if k != len(stored) {
			return hx.Failf("read-announce", "READ_FILE of the whole view announced %d, want %d", k, len(stored))
		}
		whole, closed, err = conn.ReadN(k)
		if err != nil || closed {
			return hx.Failf("reply-layout", "READ_FILE body: closed=%v err=%v", closed, err)
		}
		i := matchAny(whole)
		if i < 0 {
			return hx.Failf("documented-source", "%s over the network: view is none of the admissible transformations (%s); first difference to the first candidate at %d", rel, labels[0], firstDiffB(views[0], whole))
		}
		chosen = views[i]
		// windows with both commands through the model (position independence over the network)
		if err := m.Step(conn, hx.Req{Op: "OPEN_FILE", Path: hx.BStr(rel)}); err != nil {
			return err
		}
		for _, w := range c11Windows {
			if w[0] >= len(stored) {
				continue
			}
			for _, op := range []string{"READ_FILE", "READ_CRIT"} {
				n := w[1]
				if op == "READ_CRIT" && w[0]+n > len(stored) {
					n = len(stored) - w[0]
				}
				if err := m.Step(conn, hx.Req{Op: op, N: uint32(n), Off: uint64(w[0])}); err != nil {
					return err
				}
			}
		}
		return conn.ExpectEnd()
	}
	f, err := fsys.Open(rel)
	if err != nil {
		if mayFail {
			st.Label("open failed (admissible)")
			return nil
		}
		return hx.Failf("open-succeeds", "FS.Open(%s) failed: %v", rel, err)
	}
	whole, err = io.ReadAll(f)
	if err != nil {
		f.Close()
		return hx.Failf("read-contract", "ReadAll failed: %v", err)
	}
	idx := matchAny(whole)
	if idx < 0 {
		f.Close()
		return hx.Failf("documented-source", "%s: view is none of the admissible transformations (%s); first difference to the first candidate at %d (len %d vs %d)", rel, labels[0], firstDiffB(views[0], whole), len(whole), len(views[0]))
	}
	for _, w := range c11Windows {
		if w[0] >= len(stored) {
			continue
		}
		if w[0] < 0x1070 && w[0]+w[1] > 0xF70 {
			st.Label("read window overlaps the 3k3y area")
		}
		buf := make([]byte, w[1])
		n, err := f.ReadAt(buf, int64(w[0]))
		want := min(w[1], len(stored)-w[0])
		if n != want || !bytes.Equal(buf[:n], whole[w[0]:w[0]+n]) {
			f.Close()
			return hx.Failf("position-independent", "%s: ReadAt(%d, %d) = n %d err %v differs from the sequentially read view", rel, w[1], w[0], n, err)
		}
		if _, err := f.Seek(int64(w[0]), io.SeekStart); err != nil {
			f.Close()
			return hx.Failf("seek-contract", "Seek(%d): %v", w[0], err)
		}
		n, err = io.ReadFull(f, buf[:want])
		if n != want || !bytes.Equal(buf[:n], whole[w[0]:w[0]+n]) {
			f.Close()
			return hx.Failf("position-independent", "%s: Seek(%d)+Read(%d) = n %d err %v differs from the sequentially read view", rel, w[0], want, n, err)
		}
	}
	f.Close()
	// the same file through the library on a filesystem that is not re-rooted (absolute host paths): the same sources
	// decide, in particular the parallel REDKEY directory is the one beside PS3ISO, wherever the process stands
	abs := filepath.Join(root, filepath.FromSlash(rel))
	if af, err := (&pfs.FS{Fs: afero.NewOsFs()}).Open(abs); err != nil {
		return hx.Failf("open-succeeds", "FS.Open(%s) on a plain OsFs failed: %v (through a re-rooted one it opened)", abs, err)
	} else {
		got, err := io.ReadAll(af)
		af.Close()
		if err != nil || !bytes.Equal(got, whole) {
			return hx.Failf("documented-source", "%s opened by its absolute path on a plain OsFs reads differently (first difference at %d, err %v) from the same file on a re-rooted filesystem (%s)", rel, firstDiffB(got, whole), err, labels[idx])
		}
		st.Label("also opened by absolute path on a plain OsFs")
	}
	// opened for writing: passed through byte-identically
	for _, fl := range []int{os.O_RDWR, os.O_RDWR | os.O_SYNC} {
		wf, err := fsys.OpenFile(rel, fl, 0)
		if err != nil {
			return hx.Failf("write-open-passthrough", "OpenFile(%s, O_RDWR) failed: %v", rel, err)
		}
		got, err := io.ReadAll(wf)
		wf.Close()
		if err != nil || !bytes.Equal(got, stored) {
			return hx.Failf("write-open-passthrough", "%s opened for reading and writing (flags %#x) does not read back byte-identically (err %v)", rel, fl, err)
		}
	}
	wf, err := fsys.OpenFile(rel, os.O_RDWR|os.O_APPEND, 0)
	if err != nil {
		return hx.Failf("write-open-passthrough", "OpenFile(%s, O_RDWR|O_APPEND) failed: %v", rel, err)
	}
	got, err := io.ReadAll(wf)
	wf.Close()
	if err != nil || !bytes.Equal(got, stored) {
		return hx.Failf("write-open-passthrough", "%s opened for writing does not read back byte-identically (err %v)", rel, err)
	}
	wf, err = fsys.OpenFile(rel, os.O_WRONLY, 0)
	if err != nil {
		return hx.Failf("write-open-passthrough", "OpenFile(%s, O_WRONLY) failed: %v", rel, err)
	}
	patch := []byte("PATCH-THROUGH-WRITE-OPEN")
	_, werr := wf.WriteAt(patch, 0xF78)
	wf.Close()
	if c.Length >= 0xF78+len(patch) {
		disk, _ := os.ReadFile(filepath.Join(root, filepath.FromSlash(rel)))
		if werr != nil || !bytes.Equal(disk[0xF78:0xF78+len(patch)], patch) {
			return hx.Failf("write-open-passthrough", "bytes written through a write-open of %s did not land verbatim (err %v)", rel, werr)
		}
	}
	return nil
}

func firstDiffB(a, b []byte) int {
	n := min(len(a), len(b))
	for i := 0; i < n; i++ {
		if a[i] != b[i] {
			return i
		}
	}
	return n
}

func c11Product(yield func(c11Case) bool) {
	seed := uint64(1)
	thorough := true // the whole product costs a few seconds: both tiers enumerate it completely
	for _, dir := range []string{"PS3ISO", "ps3iso", "Ps3Iso", "PS3ISOX", "GAMES"} {
		for _, ext := range []string{".iso", ".ISO", ".Iso", ".bin"} {
			for depth := 0; depth <= 2; depth++ {
				for _, key := range []string{"none", "adjacent", "redkey", "both", "malformed", "malformed+redkey", "redkey-is-file"} {
					for _, wm := range []string{"none", "enc", "dec"} {
						for _, ln := range []int{0xF6F, 0xF70, 0x106F, 0x1070, 8 * 2048, 8*2048 + 100} {
							for _, prefix := range []string{"", "x"} {
								seed++
								if prefix == "x" && !thorough && seed%5 != 0 {
									continue
								}
								// the precedence-relevant factors are always crossed completely; the others are sampled in quick
								relevant := (dir == "PS3ISO" || dir == "GAMES") && (ext == ".iso" || ext == ".bin") && depth == 0 && (ln == 0x1070 || ln == 8*2048)
								if !thorough && !relevant && (seed+hx.Seed())%4 != 0 {
									continue
								}
								c := c11Case{DirName: dir, Prefix: prefix, Ext: ext, Depth: depth, Key: key, Watermark: wm, Length: ln, Seed: seed*31 + 7}
								c.Net = seed%3 == 0
								if !yield(c) {
									return
								}
								if wm != "none" && ln >= 0x1070 && depth == 0 && prefix == "" {
									// the 3k3y area inside encrypted sectors
									for fe := 1; fe <= 2; fe++ {
										c.FirstEnd = fe
										if !yield(c) {
											return
										}
									}
								}
							}
						}
					}
				}
			}
		}
	}
}

// c11LongNames: images whose own name fills the 255 bytes a name may have (key file names would be longer).
func c11LongNames(yield func(c11Case) bool) {
	seed := uint64(900000)
	for _, dir := range []string{"PS3ISO", "GAMES"} {
		for _, ext := range []string{".iso", ".bin"} {
			for _, wm := range []string{"none", "enc", "dec"} {
				for _, ln := range []int{0x1070, 8 * 2048} {
					for _, key := range []string{"none", "redkey-is-file"} {
						seed++
						if !yield(c11Case{DirName: dir, Ext: ext, Key: key, Watermark: wm, Length: ln, Seed: seed*31 + 7, LongName: true, Net: seed%2 == 0}) {
							return
						}
					}
				}
			}
		}
	}
}

// c11PrefixNames: the PS3ISO directory lies below a directory whose own name contains that spelling
// (PS3ISO_old/PS3ISO/g.iso): the parallel REDKEY directory is the sibling of the PS3ISO *element*, whatever the
// names above it look like. A decoy key waits where a textual replacement would look (REDKEY_old/PS3ISO/g.dkey).
func c11PrefixNames(yield func(c11Case) bool) {
	seed := uint64(970000)
	for _, dir := range []string{"PS3ISO", "ps3iso"} {
		for _, prefix := range []string{dir + "_old", "my" + dir, dir + dir} {
			for _, key := range []string{"none", "adjacent", "redkey", "both"} {
				for _, wm := range []string{"none", "enc"} {
					for _, depth := range []int{0, 1} {
						seed++
						if !yield(c11Case{DirName: dir, Prefix: prefix, Ext: ".iso", Depth: depth, Key: key, Watermark: wm, Length: 8 * 2048, Seed: seed*31 + 7, Net: seed%3 == 0}) {
							return
						}
					}
				}
			}
		}
	}
}

// c11KeyDirs: a directory named like the key file, beside the image or below REDKEY.
func c11KeyDirs(yield func(c11Case) bool) {
	seed := uint64(950000)
	for _, ext := range []string{".iso", ".bin"} {
		for _, wm := range []string{"none", "enc", "dec"} {
			for _, ln := range []int{0x1070, 8 * 2048} {
				for _, key := range []string{"adjacent-is-dir", "adjacent-is-dir+redkey", "adjacent-is-loop", "adjacent-is-loop+redkey", "adjacent-is-socket", "adjacent-is-socket+redkey"} {
					for _, depth := range []int{0, 1} {
						seed++
						if !yield(c11Case{DirName: "PS3ISO", Ext: ext, Key: key, Depth: depth, Watermark: wm, Length: ln, Seed: seed*31 + 7, Net: seed%2 == 0}) {
							return
						}
					}
				}
			}
		}
	}
}

func TestC11Product(t *testing.T) {
	st := hx.NewStats("C11", "product")
	if true {
		st.MarkExhaustive("full product: 5 directory names x 4 extensions x 3 depths x 7 key layouts (incl. a regular file called REDKEY) x 3 watermarks x 6 file lengths x 2 prefixes (library or network route per case), plus 48 cases with a 255-byte image name, 96 with the PS3ISO spelling inside the name of a directory above it (and a decoy key) and 144 with a directory, a self-referencing link or a socket named like the key file")
	} else {
		st.MarkExhaustive("all combinations of the precedence-relevant factors (key layout x watermark x {PS3ISO/.iso, other} x {0x1070, larger}); the remaining product is sampled 1/4")
	}
	all := func(yield func(c11Case) bool) {
		ok := true
		c11Product(func(c c11Case) bool { ok = yield(c); return ok })
		if ok {
			c11LongNames(func(c c11Case) bool { ok = yield(c); return ok })
		}
		if ok {
			c11PrefixNames(func(c c11Case) bool { ok = yield(c); return ok })
		}
		if ok {
			c11KeyDirs(yield)
		}
	}
	hx.RunCases(t, st, all, runC11, hx.PropOpts{WriteAhead: true})
}
