package props

import (
	"bytes"
	"fmt"
	"io"
	"os"
	"os/exec"
	"path/filepath"
	"strings"
	"time"

	"github.com/spf13/afero"

	pfs "github.com/xakep666/ps3netsrv-go/pkg/fs"
	"github.com/xakep666/ps3netsrv-go/verif/hx"
	"github.com/xakep666/ps3netsrv-go/verif/isoread"
)

// isoFixture: a tree materialised under <tmp>/t and served by BasePathFs(<tmp>).
type isoFixture struct {
	Tmp  string
	Fs   afero.Fs
	Root string // image root path inside Fs
}

func (f *isoFixture) Close() { os.RemoveAll(f.Tmp) }

func newIsoFixture(tree *hx.Node) (*isoFixture, error) {
	return newIsoFixtureNamed(tree, "t")
}

// newIsoFixtureNamed: the image root directory's own name becomes the volume name in plain mode.
func newIsoFixtureNamed(tree *hx.Node, rootName string) (*isoFixture, error) {
	if rootName == "" {
		rootName = "t"
	}
	tmp, err := hx.Scratch("iso")
	if err != nil {
		return nil, err
	}
	if err := os.Mkdir(filepath.Join(tmp, rootName), 0o755); err != nil {
		os.RemoveAll(tmp)
		return nil, err
	}
	if err := hx.Materialize(filepath.Join(tmp, rootName), tree); err != nil {
		os.RemoveAll(tmp)
		return nil, err
	}
	return &isoFixture{Tmp: tmp, Fs: afero.NewBasePathFs(afero.NewOsFs(), tmp), Root: "/" + rootName}, nil
}

// sfoBytes builds a well-formed PARAM.SFO with the given string fields (order as given).
func sfoBytes(fields [][2]string) []byte {
	n := len(fields)
	var keys, data []byte
	type ent struct{ ko, do, dl, dm int }
	var ents []ent
	for _, f := range fields {
		ko := len(keys)
		keys = append(keys, f[0]...)
		keys = append(keys, 0)
		do := len(data)
		val := append([]byte(f[1]), 0)
		dm := (len(val) + 3) / 4 * 4
		data = append(data, val...)
		for len(data) < do+dm {
			data = append(data, 0)
		}
		ents = append(ents, ent{ko, do, len(val), dm})
	}
	for len(keys)%4 != 0 {
		keys = append(keys, 0)
	}
	hdr := 20
	keyStart := hdr + 16*n
	dataStart := keyStart + len(keys)
	out := make([]byte, 0, dataStart+len(data))
	le32 := func(v int) []byte { return []byte{byte(v), byte(v >> 8), byte(v >> 16), byte(v >> 24)} }
	le16 := func(v int) []byte { return []byte{byte(v), byte(v >> 8)} }
	out = append(out, 0, 'P', 'S', 'F', 1, 1, 0, 0)
	out = append(out, le32(keyStart)...)
	out = append(out, le32(dataStart)...)
	out = append(out, le32(n)...)
	for _, e := range ents {
		out = append(out, le16(e.ko)...)
		out = append(out, le16(0x0204)...)
		out = append(out, le32(e.dl)...)
		out = append(out, le32(e.dm)...)
		out = append(out, le32(e.do)...)
	}
	out = append(out, keys...)
	out = append(out, data...)
	return out
}

// withPS3 adds PS3_GAME/PARAM.SFO with the title id to a tree (copy).
func withPS3(tree *hx.Node, titleID string, extra [][2]string) *hx.Node {
	fields := append([][2]string{}, extra...)
	fields = append(fields, [2]string{"TITLE_ID", titleID})
	cp := *tree
	cp.Children = append([]*hx.Node{}, tree.Children...)
	var kept []*hx.Node
	for _, c := range cp.Children {
		if c.Name != "PS3_GAME" {
			kept = append(kept, c)
		}
	}
	kept = append(kept, hx.Dir("PS3_GAME", hx.RawFile("PARAM.SFO", sfoBytes(fields))))
	cp.Children = kept
	return &cp
}

// readAllAligned reads an image sequentially with a sector-aligned buffer: the canonical image.
func readAllAligned(r io.Reader, bufSize int, limit int64) ([]byte, error) {
	var out []byte
	buf := make([]byte, bufSize)
	for {
		n, err := readFullProgress(r, buf)
		out = append(out, buf[:n]...)
		if int64(len(out)) > limit {
			return out, fmt.Errorf("image larger than %d bytes", limit)
		}
		if err == io.EOF || err == io.ErrUnexpectedEOF {
			return out, nil
		}
		if err != nil {
			return out, err
		}
	}
}

// combinedOutputBounded is cmd.CombinedOutput with a bound: a tool that is still running after a minute (the trees
// here take it well under a second) does not come to an end - which for a tool is a failure, not something to wait for.
func combinedOutputBounded(cmd *exec.Cmd) ([]byte, error) {
	var buf bytes.Buffer
	cmd.Stdout, cmd.Stderr = &buf, &buf
	if err := cmd.Start(); err != nil {
		return nil, err
	}
	done := make(chan error, 1)
	go func() { done <- cmd.Wait() }()
	select {
	case err := <-done:
		return buf.Bytes(), err
	case <-time.After(time.Minute):
		cmd.Process.Kill()
		<-done
		return buf.Bytes(), hx.Failf("tool-terminates", "%s %s was still running after a minute", filepath.Base(cmd.Path), cmd.Args[1])
	}
}

// readFullProgress is io.ReadFull for a reader that may be broken: reads that return nothing and no error are an
// oracle failure after a hundred of them in a row (io.ReadFull would spin for ever).
func readFullProgress(r io.Reader, buf []byte) (int, error) {
	n, idle := 0, 0
	for n < len(buf) {
		k, err := r.Read(buf[n:])
		n += k
		if err == io.EOF {
			if n == 0 {
				return 0, io.EOF
			}
			return n, io.ErrUnexpectedEOF
		}
		if err != nil {
			return n, err
		}
		if k == 0 {
			if idle++; idle > 100 {
				return n, hx.Failf("progress-to-size", "sequential read makes no progress: Read returns (0, nil) again and again")
			}
		} else {
			idle = 0
		}
	}
	return n, nil
}

// expectedNames: how a portable source name appears in each hierarchy.
func primaryName(n string) string { return strings.ToUpper(n) }

// compareTree checks that both hierarchies of the decoded volume contain exactly the tree.
// content(file node, off, n) gives the source bytes. fullLimit bounds full comparisons.
func compareTree(v *isoread.Vol, tree *hx.Node, fullLimit int64) error {
	for _, h := range []*isoread.Hier{v.Primary, v.Joliet} {
		hn := "primary"
		mapName := primaryName
		if h.Joliet {
			hn = "joliet"
			mapName = func(s string) string { return s }
		}
		wantDirs := map[string]bool{"": true}
		wantFiles := map[string]*hx.Node{}
		tree.Walk(func(rel string, n *hx.Node) {
			if rel == "" {
				return
			}
			segs := strings.Split(rel, "/")
			for i := range segs {
				segs[i] = mapName(segs[i])
			}
			p := strings.Join(segs, "/")
			if n.Kind == "dir" {
				wantDirs[p] = true
			} else if n.Kind == "file" {
				wantFiles[p] = n
			}
		})
		gotDirs, dupD := h.DirPaths()
		gotFiles, dupF := h.FileMap()
		if len(dupD) > 0 || len(dupF) > 0 {
			return hx.Failf("iso-no-duplicates", "%s: duplicated paths dirs=%v files=%v", hn, dupD, dupF)
		}
		for p := range wantDirs {
			if !gotDirs[p] {
				return hx.Failf("iso-dir-missing", "%s: directory %q of the source tree is not in the image", hn, p)
			}
		}
		for p := range gotDirs {
			if !wantDirs[p] {
				return hx.Failf("iso-dir-invented", "%s: image has directory %q which the source tree has not", hn, p)
			}
		}
		for p := range gotFiles {
			if wantFiles[p] == nil {
				return hx.Failf("iso-file-invented", "%s: image has file %q which the source tree has not", hn, p)
			}
		}
		for p, n := range wantFiles {
			f := gotFiles[p]
			if f == nil {
				return hx.Failf("iso-file-missing", "%s: file %q of the source tree is not in the image", hn, p)
			}
			if f.Size != n.Size {
				return hx.Failf("iso-file-size", "%s: file %q recorded length %d, source size %d", hn, p, f.Size, n.Size)
			}
			if err := compareFile(v, f, n, fullLimit, hn); err != nil {
				return err
			}
		}
	}
	return nil
}

func compareFile(v *isoread.Vol, f *isoread.Entry, n *hx.Node, fullLimit int64, hn string) error {
	check := func(off int64, cnt int) error {
		if off < 0 {
			off = 0
		}
		if off >= n.Size {
			return nil
		}
		if int64(cnt) > n.Size-off {
			cnt = int(n.Size - off)
		}
		got, err := v.ReadFile(f, off, cnt)
		if err != nil {
			return hx.Failf("iso-file-bytes", "%s: file %q: reading extents at %d: %v", hn, f.Path(), off, err)
		}
		want := n.Content(off, cnt)
		if string(got) != string(want) {
			d := 0
			for d < len(got) && d < len(want) && got[d] == want[d] {
				d++
			}
			return hx.Failf("iso-file-bytes", "%s: file %q differs from the source at byte %d", hn, f.Path(), off+int64(d))
		}
		return nil
	}
	if n.Size <= fullLimit {
		const chunk = 4 << 20
		for off := int64(0); off < n.Size; off += chunk {
			if err := check(off, chunk); err != nil {
				return err
			}
		}
		return nil
	}
	// giants: all extent boundaries +-4 KiB, both ends, islands
	var base int64
	if err := check(0, 8192); err != nil {
		return err
	}
	if err := check(n.Size-8192, 8192); err != nil {
		return err
	}
	for _, e := range f.Extents {
		base += int64(e.Len)
		if err := check(base-4096, 8192); err != nil {
			return err
		}
	}
	for _, b := range []int64{1 << 31, 1 << 32, 0xFFFFF800, 2 * 0xFFFFF800, 1 << 33} {
		if err := check(b-4096, 8192); err != nil {
			return err
		}
	}
	return nil
}

var _ = pfs.NewVirtualISO
