package props

import (
	"fmt"
	"strings"
	"testing"

	"pgregory.net/rapid"

	"github.com/xakep666/ps3netsrv-go/verif/hx"
)

// ---- C06: listing, stat and dir-size report the true tree -----------------------------

func genC06(t *rapid.T) hx.SessionCase {
	shape := rapid.IntRange(0, 7).Draw(t, "shape")
	o := hx.TreeOpts{MaxDepth: 3, MaxEntries: 6, MaxTotal: 30, MaxFile: 5000, Symlinks: true, MTimes: true,
		NameClass: []string{"portable", "portable", "long", "nonascii", "spaces"}}
	switch shape {
	case 0:
		o.MaxEntries, o.MaxTotal = 0, 0
	case 1:
		o.MaxEntries, o.MaxTotal = 1, 3
	}
	tree := hx.GenTree(t, o)
	many := 0
	if shape == 2 || (shape == 3 && hx.Thorough()) {
		// entry counts around powers of two and common batch sizes, where listing loops tend to break
		k := rapid.SampledFrom([]int{40, 63, 64, 65, 130, 255, 256, 257, 400, 511, 512, 513, 1023, 1024, 1025, 1030}).Draw(t, "many")
		if hx.Thorough() && shape == 3 {
			k = rapid.SampledFrom([]int{2047, 2048, 2049, 3000, 4096, 4097}).Draw(t, "many-thorough")
		}
		many = k
		d := hx.Dir("MANY")
		for i := 0; i < k; i++ {
			switch i % 11 {
			case 3:
				d.Children = append(d.Children, hx.Dir(fmt.Sprintf("d%04d", i)))
			case 7:
				d.Children = append(d.Children, hx.Link(fmt.Sprintf("l%04d", i), fmt.Sprintf("e%04d", i-1)))
			case 9:
				d.Children = append(d.Children, hx.Link(fmt.Sprintf("x%04d", i), "gone"))
			default:
				d.Children = append(d.Children, hx.File(fmt.Sprintf("e%04d", i), int64(i%5), uint64(i+1)))
			}
		}
		tree.Children = append(tree.Children, d)
	}
	// sometimes a real directory literally named like a virtual-image prefix, with content below it
	if lit := rapid.SampledFrom([]string{"", "", "", "", "", "***DVD***", "***PS3***"}).Draw(t, "literal-prefix-dir"); lit != "" {
		tree.Children = append(tree.Children, hx.Dir(lit, hx.File("top.bin", 7, 81), hx.Dir("GAME", hx.File("Y.BIN", 10, 79), hx.Dir("sub", hx.File("z", 3, 80)))))
	}
	// links that lead back: to the directory itself, to its parent, to an ancestor further up (cycles for anything
	// that follows links while walking)
	hasBack := false
	if cyc := rapid.IntRange(0, 5).Draw(t, "cyclic-links"); cyc == 0 {
		hasBack = true
		var ds []*hx.Node
		var depth []int
		tree.Walk(func(rel string, n *hx.Node) {
			if n.Kind == "dir" && len(ds) < 40 && n.Name != "MANY" {
				ds = append(ds, n)
				if rel == "" {
					depth = append(depth, 0)
				} else {
					depth = append(depth, strings.Count(rel, "/")+1)
				}
			}
		})
		for i, k := 0, rapid.IntRange(1, 2).Draw(t, "ncyc"); i < k; i++ {
			di := rapid.IntRange(0, len(ds)-1).Draw(t, fmt.Sprintf("cyc-dir%d", i))
			d := ds[di]
			// never above the root (links leaving the root are outside the properties by design)
			tgt := rapid.SampledFrom([]string{".", "..", "../..", "./."}[:1+min(depth[di], 2)]).Draw(t, fmt.Sprintf("cyc-tgt%d", i))
			if tgt == "../.." && depth[di] < 2 {
				tgt = "."
			}
			name := fmt.Sprintf("back%d", i)
			dup := false
			for _, c := range d.Children {
				if c.Name == name {
					dup = true
				}
			}
			if !dup {
				d.Children = append(d.Children, hx.Link(name, tgt))
			}
		}
	}
	pool := hx.PoolOf(tree)
	dirs := append([]string{""}, pool.Dirs...)
	var reqs []hx.Req
	all := append(append(append([]string{""}, pool.Files...), pool.Dirs...), pool.Links...)
	nblocks := rapid.IntRange(1, 5).Draw(t, "blocks")
	for b := 0; b < nblocks; b++ {
		l := fmt.Sprintf("b%d", b)
		d := rapid.SampledFrom(dirs).Draw(t, l+"-dir")
		if many > 0 && b == 0 && rapid.IntRange(0, 2).Draw(t, l+"-tomany") > 0 {
			// the big directory: some entry-by-entry reads, then the bulk listing of what remains, where the
			// remainder is often a power of two (batch boundaries of a chunked enumeration)
			j := rapid.IntRange(0, 8).Draw(t, l+"-j")
			if rem := rapid.SampledFrom([]int{64, 128, 256, 512, 1024, 2048, 4096}).Draw(t, l+"-rem"); rapid.Bool().Draw(t, l+"-pow2") && many-rem >= 0 && many-rem <= 60 {
				j = many - rem
			}
			reqs = append(reqs, hx.Req{Op: "OPEN_DIR", Path: "/MANY"})
			for i := 0; i < j; i++ {
				reqs = append(reqs, hx.Req{Op: rapid.SampledFrom([]string{"READ_ENTRY", "READ_ENTRY2"}).Draw(t, fmt.Sprintf("%s-jo%d", l, i))})
			}
			reqs = append(reqs, hx.Req{Op: "READ_DIR"}, hx.Req{Op: "READ_DIR"}, hx.Req{Op: "READ_ENTRY2"})
			continue
		}
		if rapid.IntRange(0, 3).Draw(t, l+"-notdir") == 0 && len(all) > 1 {
			// open-dir must succeed exactly for existing directories: files, links to files, dangling links and
			// missing paths must be refused (and leave no listable handle behind)
			nd := rapid.SampledFrom(all).Draw(t, l+"-nd")
			if rapid.IntRange(0, 4).Draw(t, l+"-missing") == 0 {
				nd += "/missing"
			}
			reqs = append(reqs, hx.Req{Op: "OPEN_DIR", Path: hx.BStr("/" + nd)}, hx.Req{Op: rapid.SampledFrom([]string{"READ_DIR", "READ_ENTRY", "READ_ENTRY2"}).Draw(t, l+"-after")})
		}
		reqs = append(reqs, hx.Req{Op: "OPEN_DIR", Path: hx.BStr(spell(t, d, l))})
		n := 0
		if node := tree.Find(d); node != nil {
			n = len(node.Children)
		}
		calls := rapid.IntRange(0, n+2).Draw(t, l+"-calls")
		if rapid.IntRange(0, 2).Draw(t, l+"-full") > 0 {
			calls = n + 1 + rapid.IntRange(0, 2).Draw(t, l+"-extra")
		}
		if calls > 60 {
			calls = 60
		}
		for i := 0; i < calls; i++ {
			op := rapid.SampledFrom([]string{"READ_ENTRY", "READ_ENTRY", "READ_ENTRY2", "READ_ENTRY2", "READ_DIR"}).Draw(t, fmt.Sprintf("%s-op%d", l, i))
			reqs = append(reqs, hx.Req{Op: op})
			if rapid.IntRange(0, 5).Draw(t, fmt.Sprintf("%s-mix%d", l, i)) == 0 {
				p := rapid.SampledFrom(all).Draw(t, fmt.Sprintf("%s-sp%d", l, i))
				reqs = append(reqs, hx.Req{Op: rapid.SampledFrom([]string{"STAT", "DIR_SIZE"}).Draw(t, fmt.Sprintf("%s-so%d", l, i)), Path: hx.BStr("/" + p)})
			}
		}
		if n > 60 || rapid.Bool().Draw(t, l+"-bulk") {
			reqs = append(reqs, hx.Req{Op: "READ_DIR"}, hx.Req{Op: "READ_DIR"}, hx.Req{Op: "READ_ENTRY"})
		}
	}
	// the tree changes behind the server between two opens of one path on this connection: the directory that is held
	// open is replaced by another directory, by a file, or removed - the second open must see what is there now
	// (not in trees with links leading upwards: moved to another depth such a link may lead out of the root)
	if nonRoot := pool.Dirs; len(nonRoot) > 0 && !hasBack && rapid.IntRange(0, 2).Draw(t, "changed-between-opens") == 0 {
		d := rapid.SampledFrom(nonRoot).Draw(t, "chg-dir")
		related := func(a, b string) bool { return a == b || strings.HasPrefix(a, b+"/") || strings.HasPrefix(b, a+"/") }
		var others []string // files and directories only: a relative link moved to another depth may lead out of the root
		for _, o := range append(append([]string{}, pool.Files...), pool.Dirs...) {
			if o != "" && !related(o, d) && !strings.HasPrefix(o, "MANY/") {
				others = append(others, o)
			}
		}
		reqs = append(reqs, hx.Req{Op: "OPEN_DIR", Path: hx.BStr("/" + d)})
		for i, k := 0, rapid.IntRange(0, 2).Draw(t, "chg-before"); i < k; i++ {
			reqs = append(reqs, hx.Req{Op: rapid.SampledFrom([]string{"READ_DIR", "READ_ENTRY", "READ_ENTRY2"}).Draw(t, fmt.Sprintf("chg-b%d", i))})
		}
		if len(others) > 0 && rapid.IntRange(0, 2).Draw(t, "chg-kind") > 0 {
			reqs = append(reqs, hx.Req{Op: "LOCAL_SWAP", Path: hx.BStr("/" + d), Raw: hx.BStr("/" + rapid.SampledFrom(others).Draw(t, "chg-other"))})
		} else {
			reqs = append(reqs, hx.Req{Op: "LOCAL_REMOVE", Path: hx.BStr("/" + d)})
		}
		reqs = append(reqs, hx.Req{Op: "OPEN_DIR", Path: hx.BStr(spell(t, d, "chg-again"))})
		if rapid.Bool().Draw(t, "chg-bulk") {
			reqs = append(reqs, hx.Req{Op: "READ_DIR"})
		}
		for i := 0; i < 8; i++ {
			reqs = append(reqs, hx.Req{Op: rapid.SampledFrom([]string{"READ_ENTRY", "READ_ENTRY2"}).Draw(t, fmt.Sprintf("chg-a%d", i))})
		}
	}
	// stat and dir-size of every path of the tree (bounded for the big directory)
	cnt := 0
	for _, p := range all {
		if cnt > 80 {
			break
		}
		cnt++
		reqs = append(reqs, hx.Req{Op: "STAT", Path: hx.BStr(spell(t, p, fmt.Sprintf("st%d", cnt)))})
		if n := tree.Find(p); n != nil && n.Kind != "file" {
			reqs = append(reqs, hx.Req{Op: "DIR_SIZE", Path: hx.BStr("/" + p)})
		}
	}
	reqs = append(reqs, hx.Req{Op: "STAT", Path: "/no/such"}, hx.Req{Op: "OPEN_DIR", Path: "/no/such"}, hx.Req{Op: "READ_DIR"})
	return hx.SessionCase{Tree: tree, Reqs: reqs, Transport: rapid.SampledFrom([]string{"sync", "pipelined"}).Draw(t, "transport")}
}

func spell(t *rapid.T, rel, l string) string {
	switch rapid.IntRange(0, 4).Draw(t, l+"-spell") {
	case 0:
		return rel
	case 1:
		return "/" + rel + "/"
	default:
		return "/" + rel
	}
}

func runC06(c hx.SessionCase, st *hx.Stats) error {
	// classification
	var curDir *hx.Node
	entryCalls := 0
	hasLink := false
	c.Tree.Walk(func(_ string, n *hx.Node) {
		if n.Kind == "symlink" {
			hasLink = true
		}
	})
	for _, r := range c.Reqs {
		switch r.Op {
		case "OPEN_DIR":
			curDir = c.Tree.Find(strings.Trim(string(r.Path), "/"))
			entryCalls = 0
		case "READ_ENTRY", "READ_ENTRY2":
			entryCalls++
			if curDir != nil && len(curDir.Children) >= 2 && entryCalls == 2 {
				st.Label("directory with >= 2 entries enumerated entry by entry")
				st.NT("enum|" + string(r.Op) + "|" + treeKey(curDir))
			}
		case "LOCAL_SWAP", "LOCAL_REMOVE":
			st.Label("open directory replaced or removed behind the server, then opened again")
			st.NT(r.Op + "|" + string(r.Path) + "|" + string(r.Raw))
		case "STAT", "DIR_SIZE":
			if p := strings.Trim(string(r.Path), "/"); p != "" {
				st.NT(r.Op + "|" + p + "|" + fmt.Sprint(len(c.Reqs)))
			}
		}
	}
	if hasLink {
		st.Label("tree contains symlinks (file/dir/dangling)")
	}
	nodes := c.Tree.CountNodes()
	if nodes > 300 {
		st.Label("directory with hundreds of entries")
	}
	st.Label("transport=" + c.Transport)
	st.Sample(map[string]any{"nodes": nodes, "requests": len(c.Reqs), "first_requests": reqStrings(c.Reqs[:min(len(c.Reqs), 12)])})
	return hx.RunSession(c, st, hx.SessionHooks{})
}

func TestC06Listing(t *testing.T) {
	st := hx.NewStats("C06", "listing")
	hx.RunProp(t, st, genC06, runC06, hx.PropOpts{WriteAhead: true})
}
