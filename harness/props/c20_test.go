package props

import (
	"bytes"
	"encoding/hex"
	"fmt"
	"os"
	"os/exec"
	"path/filepath"
	"strings"
	"sync"
	"testing"
	"time"

	"github.com/spf13/afero"
	"pgregory.net/rapid"

	"github.com/xakep666/ps3netsrv-go/verif/hx"
	"github.com/xakep666/ps3netsrv-go/verif/refcrypt"
)

// ---- C20: offline tools ----------------------------------------------------------------------

type c20Case struct {
	Tool   string `json:"tool"`   // make-iso | decrypt-redump | decrypt-3k3y
	Output string `json:"output"` // new | stdout | existing-file | existing-dir | existing-symlink
	// make-iso
	Tree     *hx.Node `json:"tree,omitempty"`
	PS3      bool     `json:"ps3,omitempty"`
	TitleID  string   `json:"title_id,omitempty"`
	RootName string   `json:"root_name,omitempty"`
	// DirSpell: how the directory is written on the command line: "" (absolute, tidy) | "linkup" ("..") behind a symlink
	DirSpell string `json:"dir_spell,omitempty"`
	// decrypt
	Key     hx.BStr           `json:"key,omitempty"`
	Regions []refcrypt.Region `json:"regions,omitempty"`
	Sectors int               `json:"sectors,omitempty"`
	Seed    uint64            `json:"seed,omitempty"`
	// Mark: decrypt-redump only: the image also carries a 3k3y watermark ("enc" | "dec") in its plain first region
	Mark string `json:"mark,omitempty"`
	// KeepKey: decrypt-redump only: the key file stays beside the place where the output is served from
	// ("" | "adjacent" | "redkey")
	KeepKey string `json:"keep_key,omitempty"`
	// ServeIn: directory under a served root where the output is placed for the serve-back check
	ServeIn string `json:"serve_in"`
}

func genC20(t *rapid.T) c20Case {
	c := c20Case{Tool: rapid.SampledFrom([]string{"make-iso", "make-iso", "decrypt-redump", "decrypt-redump", "decrypt-3k3y"}).Draw(t, "tool"),
		Output:  rapid.SampledFrom([]string{"new", "new", "new", "stdout", "stdout", "existing-file", "existing-file", "existing-empty-file", "existing-dir", "existing-empty-dir", "existing-symlink", "existing-symlink-to-empty"}).Draw(t, "output"),
		ServeIn: rapid.SampledFrom([]string{"PS3ISO", "ps3iso/sub", "ISOS", ""}).Draw(t, "serve_in")}
	if c.Tool == "make-iso" {
		base := genC07(t)
		c.Tree, c.PS3, c.TitleID, c.RootName = base.Tree, base.PS3, base.TitleID, base.RootName
		// DirSpell "linkup" is not generated: the tool refuses such a spelling with an error (members not found), which
		// is not a wrong output; resolving the directory would change the volume name of symlinked directories and with
		// it the agreement with the server (DESIGN 6.2)
		return c
	}
	c.Key = hx.BStr(rapid.SliceOfN(rapid.Byte(), 16, 16).Draw(t, "key"))
	c.Sectors = rapid.IntRange(6, 120).Draw(t, "sectors")
	c.Seed = rapid.Uint64Range(1, 1<<40).Draw(t, "seed")
	c.Regions = genRegions(t, c.Sectors)
	if c.Tool == "decrypt-redump" {
		c.Mark = rapid.SampledFrom([]string{"", "", "enc", "dec", "enc-hidden", "dec-hidden"}).Draw(t, "mark")
		// KeepKey is not generated: with the key file of its name still around, the decrypted output is an image
		// "with a key and an invalid (cleared) region table", which C10 wants rejected - the server refuses to open
		// it until the key file is removed (DESIGN 6.5, not accepted)
	}
	if strings.HasSuffix(c.Mark, "-hidden") {
		// the mark is part of the *plaintext* of an encrypted sector: the first plain region is sector 0 alone, the
		// next one begins behind the mark area (the raw file shows ciphertext where the output will show the mark)
		a := rapid.IntRange(3, 6).Draw(t, "hidden-next")
		c.Regions = []refcrypt.Region{{Start: 0, End: 1}, {Start: uint32(a), End: uint32(a + rapid.IntRange(1, 3).Draw(t, "hidden-len"))}}
	}
	areaEncrypted := false
	if c.Tool == "decrypt-3k3y" && rapid.IntRange(0, 2).Draw(t, "area-encrypted") == 0 {
		// the first plain region ends before or inside the watermark/key area (sectors 1..2): the raw mark and key sit
		// inside encrypted sectors; the output is the decrypted image all the same, the area itself a don't-care
		areaEncrypted = true
		a := rapid.IntRange(3, 6).Draw(t, "area-next")
		c.Regions = []refcrypt.Region{{Start: 0, End: uint32(rapid.IntRange(1, 2).Draw(t, "area-first-end"))}, {Start: uint32(a), End: uint32(a + rapid.IntRange(1, 3).Draw(t, "area-len"))}}
	}
	if !areaEncrypted && (c.Tool == "decrypt-3k3y" || c.Mark == "enc" || c.Mark == "dec") {
		// the watermark area (sectors 1..2) lies in the first plain region
		for c.Regions[0].End < 3 {
			for i := range c.Regions {
				if i > 0 && c.Regions[i].Start < 0xFFFFFFFE {
					c.Regions[i].Start++
				}
				if c.Regions[i].End < 0xFFFFFFFF {
					c.Regions[i].End++ // (borders at the 32-bit maximum stay where they are)
				}
			}
		}
	}
	return c
}

func (c c20Case) storedImage() []byte {
	data := hx.PRFBytes(c.Seed, 0, c.Sectors*2048)
	copy(data, refcrypt.EncodeTable(c.Regions))
	if c.Tool == "decrypt-3k3y" {
		copy(data[0xF70:], wmEnc)
		copy(data[0xF80:], []byte(c.Key))
	}
	switch c.Mark {
	case "enc":
		copy(data[0xF70:], wmEnc)
	case "dec":
		copy(data[0xF70:], wmDec)
	case "enc-hidden", "dec-hidden":
		// sector 1 is stored encrypted; its plaintext carries the mark
		if d, err := refcrypt.NewDecryptor([]byte(c.Key)); err == nil {
			sec := data[2048:4096]
			d.DecryptSector(1, sec)
			if c.Mark == "enc-hidden" {
				copy(sec[0xF70-2048:], wmEnc)
			} else {
				copy(sec[0xF70-2048:], wmDec)
			}
			d.EncryptSector(1, sec)
		}
	}
	return data
}

func runTool(dir string, stdoutTo *bytes.Buffer, args ...string) (int, string, error) {
	cmd := exec.Command(hx.BinPath(), args...)
	cmd.Env = []string{"PATH=/usr/bin:/bin", "HOME=/nonexistent-home"}
	cmd.Dir = dir
	var errb bytes.Buffer
	cmd.Stderr = &errb
	if stdoutTo != nil {
		cmd.Stdout = stdoutTo
	} else {
		cmd.Stdout = &errb
	}
	done := make(chan error, 1)
	if err := cmd.Start(); err != nil {
		return -1, "", err
	}
	go func() { done <- cmd.Wait() }()
	select {
	case <-done:
	case <-time.After(60 * time.Second):
		cmd.Process.Kill()
		<-done
		// (inputs here are a few hundred KiB: a tool still running after a minute does not come to an end)
		return -1, errb.String(), hx.Failf("tool-terminates", "%v was still running after 60 s", args[:min(len(args), 2)])
	}
	return cmd.ProcessState.ExitCode(), errb.String(), nil
}

func runC20(c c20Case, st *hx.Stats) error {
	tmp, err := hx.Scratch("c20")
	if err != nil {
		return err
	}
	defer os.RemoveAll(tmp)
	st.Label("tool="+c.Tool, "output="+c.Output)
	if c.Output != "new" {
		st.NT(fmt.Sprintf("%s|%s|%s|%d|%d", c.Tool, c.Output, c.ServeIn, c.Seed, c.Sectors))
	}
	// ---- inputs and the expected output
	var args []string
	var expect [][]byte // admissible outputs (don't-cares)
	var maskPS3 bool
	var fx *isoFixture
	switch c.Tool {
	case "make-iso":
		tree := c.Tree
		if c.PS3 {
			tree = withPS3(tree, c.TitleID, nil)
		}
		fx, err = newIsoFixtureNamed(tree, c.RootName)
		if err != nil {
			return err
		}
		defer fx.Close()
		img, err := fetchImage(fx, c.PS3, "lib")
		if err != nil {
			return err
		}
		if img == nil {
			st.Label("image creation fails for this tree (tool must fail too)")
		} else {
			expect = [][]byte{img}
		}
		maskPS3 = c.PS3
		args = []string{"make-iso"}
		if c.PS3 {
			args = append(args, "--ps3-mode")
		}
		src := filepath.Join(fx.Tmp, strings.TrimPrefix(fx.Root, "/"))
		if c.DirSpell == "linkup" {
			// the same directory, as the system resolves it: hop/via -> src, then ".." and its name again
			os.Mkdir(filepath.Join(tmp, "hop"), 0o755)
			if err := os.Symlink(src, filepath.Join(tmp, "hop", "via")); err != nil {
				return err
			}
			src = filepath.Join(tmp, "hop", "via") + "/../" + filepath.Base(src)
			st.Label("directory spelled with '..' behind a symlink")
		}
		args = append(args, src)
	default:
		stored := c.storedImage()
		in := filepath.Join(tmp, "in.iso")
		if err := os.WriteFile(in, stored, 0o644); err != nil {
			return err
		}
		tab := refcrypt.Table{Plain: c.Regions, Bytes: 8 + 8*len(c.Regions)}
		a, _ := refcrypt.Plaintext(stored, []byte(c.Key), tab, true, false)
		b, _ := refcrypt.Plaintext(stored, []byte(c.Key), tab, true, true)
		expect = [][]byte{a, b}
		if c.Tool == "decrypt-3k3y" || c.Mark != "" {
			// the 256-byte watermark/key area of the output is a don't-care (kept or zeroed)
			expect = append(expect, mask3k3y(a), mask3k3y(b))
		}
		if c.Mark != "" {
			st.Label("redump image carrying a 3k3y watermark: " + c.Mark)
		}
		if c.Tool == "decrypt-3k3y" && len(c.Regions) > 0 && c.Regions[0].End < 3 {
			st.Label("3k3y image whose watermark/key area lies in encrypted sectors")
		}
		if c.Tool == "decrypt-3k3y" {
			args = []string{"decrypt", "3k3y", in}
		} else {
			kf := filepath.Join(tmp, "in.dkey")
			os.WriteFile(kf, []byte(hex.EncodeToString([]byte(c.Key))), 0o644)
			args = []string{"decrypt", "redump", in, kf}
		}
	}
	matches := func(got []byte) bool {
		for _, e := range expect {
			if c.Tool == "make-iso" {
				if diffImages(e, got, maskPS3) == "" {
					return true
				}
			} else if bytes.Equal(e, got) {
				return true
			}
		}
		return false
	}
	outPath := filepath.Join(tmp, "out.iso")
	var before hx.Snap
	switch c.Output {
	case "existing-file":
		os.WriteFile(outPath, bytes.Repeat([]byte("PRECIOUS"), 1000), 0o644)
		old := time.Unix(1_500_000_000, 0)
		os.Chtimes(outPath, old, old)
	case "existing-empty-file":
		os.WriteFile(outPath, nil, 0o644)
		old := time.Unix(1_500_000_000, 0)
		os.Chtimes(outPath, old, old)
	case "existing-empty-dir":
		os.Mkdir(outPath, 0o755)
	case "existing-symlink-to-empty":
		target := filepath.Join(tmp, "target-of-link")
		os.WriteFile(target, nil, 0o644)
		old := time.Unix(1_500_000_000, 0)
		os.Chtimes(target, old, old)
		os.Symlink(target, outPath)
	case "existing-dir":
		os.Mkdir(outPath, 0o755)
		os.WriteFile(filepath.Join(outPath, "inside"), []byte("x"), 0o644)
	case "existing-symlink":
		target := filepath.Join(tmp, "target-of-link")
		os.WriteFile(target, bytes.Repeat([]byte("PRECIOUS"), 1000), 0o644)
		os.Symlink(target, outPath)
	}
	snapBefore, _ := hx.Snapshot(tmp)
	_ = before
	var stdout bytes.Buffer
	var code int
	var errText string
	switch c.Output {
	case "stdout":
		code, errText, err = runTool(tmp, &stdout, append(args, "-")...)
	default:
		code, errText, err = runTool(tmp, nil, append(args, outPath)...)
	}
	if err != nil {
		return hx.Failf("tool-finishes", "%v: %v", args, err)
	}
	if strings.Contains(errText, "panic:") || strings.Contains(errText, "goroutine 1 [") {
		return hx.Failf("no-panic", "%v crashed: %s", args, head(errText, 1200))
	}
	switch c.Output {
	case "existing-file", "existing-dir", "existing-symlink", "existing-empty-file", "existing-empty-dir", "existing-symlink-to-empty":
		if code == 0 {
			return hx.Failf("never-clobbers", "%v with an already existing output (%s) exited 0", args[:2], c.Output)
		}
		snapAfter, _ := hx.Snapshot(tmp)
		if d := hx.DiffSnap(snapBefore, snapAfter, false); d != "" {
			return hx.Failf("never-clobbers", "%v with an already existing output (%s) changed files: %s", args[:2], c.Output, d)
		}
		return nil
	}
	if expect == nil {
		if code == 0 {
			return hx.Failf("same-outcome", "make-iso exited 0 for a tree the library refuses to image")
		}
		return nil
	}
	if code != 0 {
		return hx.Failf("tool-succeeds", "%v exited %d: %s", args, code, head(errText, 600))
	}
	var got []byte
	if c.Output == "stdout" {
		got = stdout.Bytes()
		if !matches(got) {
			return hx.Failf("stdout-exact", "%v to standard output: the byte stream (%d bytes) is not the expected output (%d bytes); it starts with %q", args[:2], len(got), len(expect[0]), head(string(got), 60))
		}
	} else {
		got, err = os.ReadFile(outPath)
		if err != nil {
			return hx.Failf("tool-succeeds", "%v exited 0 but the output is unreadable: %v", args[:2], err)
		}
		if !matches(got) {
			d := firstDiffB(expect[0], got)
			return hx.Failf("output-exact", "%v: output (%d bytes) differs from the expected one (%d bytes) first at %d", args[:2], len(got), len(expect[0]), d)
		}
	}
	// an output that still carries a 3k3y mark will be taken for a 3k3y image (and transformed) wherever it is served
	if c.Tool != "make-iso" && len(got) >= 0xF80 && (bytes.Equal(got[0xF70:0xF80], wmEnc) || bytes.Equal(got[0xF70:0xF80], wmDec)) {
		return hx.Failf("served-back", "%v: the output carries a 3k3y mark at 0xF70 (%q): served from anywhere it is transformed a second time", args[:2], got[0xF70:0xF80])
	}
	// ---- serve the output back: byte-identical, no second transformation
	root := filepath.Join(tmp, "served")
	dir := filepath.Join(root, filepath.FromSlash(c.ServeIn))
	os.MkdirAll(dir, 0o755)
	if err := os.WriteFile(filepath.Join(dir, "game.iso"), got, 0o644); err != nil {
		return err
	}
	if c.KeepKey != "" && strings.HasPrefix(strings.ToLower(c.ServeIn), "ps3iso") {
		// the decrypted image replaces the encrypted one and its key file is still around: the image says about
		// itself (cleared region map) that nothing in it is encrypted
		kd := dir
		if c.KeepKey == "redkey" {
			kd = filepath.Join(root, "REDKEY", strings.TrimPrefix(strings.TrimPrefix(filepath.ToSlash(c.ServeIn), "PS3ISO"), "ps3iso"))
		}
		os.MkdirAll(kd, 0o755)
		if err := os.WriteFile(filepath.Join(kd, "game.dkey"), []byte(hex.EncodeToString([]byte(c.Key))), 0o644); err != nil {
			return err
		}
		st.Label("served back with its key file still present: " + c.KeepKey)
	}
	tg, err := hx.StartInprocFs(afero.NewBasePathFs(afero.NewOsFs(), root), hx.InprocOpts{})
	if err != nil {
		return err
	}
	defer tg.Close()
	conn, err := hx.Dial(tg.Addr)
	if err != nil {
		return err
	}
	defer conn.Close()
	m := hx.NewModel(root, false)
	m.MaskATime = true
	rel := "/" + c.ServeIn + "/game.iso"
	m.ObjFor = func(string) hx.Obj {
		// images recognised by a (decrypted) 3k3y watermark have the area masked when served (C11)
		return hx.MultiObj{got, mask3k3y(got)}
	}
	reqs := []hx.Req{{Op: "OPEN_FILE", Path: hx.BStr(rel)}, {Op: "READ_FILE", N: uint32(min(len(got), 4<<20)), Off: 0}, {Op: "READ_CRIT", N: 300, Off: 0xF60},
		{Op: "READ_FILE", N: 70000, Off: uint64(max(0, len(got)-65000))}}
	for i, r := range reqs {
		if err := m.Step(conn, r); err != nil {
			return hx.Failf("served-back", "tool output served from %s, request #%d %s: %v", rel, i, r, err)
		}
	}
	st.Label("served back from /" + c.ServeIn)
	st.NT(fmt.Sprintf("serveback|%s|%s|%d", c.Tool, c.ServeIn, len(got)))
	st.Sample(map[string]any{"tool": c.Tool, "output": c.Output, "bytes": len(got), "serve_in": c.ServeIn})
	return nil
}

func TestC20Tools(t *testing.T) {
	st := hx.NewStats("C20", "tools")
	hx.RunProp(t, st, genC20, runC20, hx.PropOpts{})
}

// ---- C20 races for one output path ---------------------------------------------------------------------------
//
// "Never overwrites an existing output file" also when the file comes into existence while the tool starts: two runs
// (different inputs) started together on the same output path. At most one may report success, and if one does, the
// file is exactly its output. Both succeeding means one silently wrote over the other's file.

type c20RaceCase struct {
	Seed    uint64 `json:"seed"`
	Rounds  int    `json:"rounds"`
	SecA    int    `json:"sectors_a"`
	SecB    int    `json:"sectors_b"`
	Runners int    `json:"runners"`
}

func runC20Race(c c20RaceCase, st *hx.Stats) error {
	tmp, err := hx.Scratch("c20race")
	if err != nil {
		return err
	}
	defer os.RemoveAll(tmp)
	key := []byte("00112233445566778899aabbccddeeff")
	if err := os.WriteFile(filepath.Join(tmp, "k.dkey"), key, 0o644); err != nil {
		return err
	}
	regions := []refcrypt.Region{{Start: 0, End: 2}, {Start: 4, End: 6}}
	var inputs []string
	var plains [][]byte
	for i := 0; i < c.Runners; i++ {
		sec := c.SecA
		if i%2 == 1 {
			sec = c.SecB
		}
		data := hx.PRFBytes(c.Seed+uint64(i), 0, sec*2048)
		copy(data, refcrypt.EncodeTable(regions))
		p := filepath.Join(tmp, fmt.Sprintf("in%d.iso", i))
		if err := os.WriteFile(p, data, 0o644); err != nil {
			return err
		}
		kb, _ := hex.DecodeString(string(key))
		tab := refcrypt.Table{Plain: regions, Bytes: 8 + 8*len(regions)}
		a, _ := refcrypt.Plaintext(data, kb, tab, true, false)
		b, _ := refcrypt.Plaintext(data, kb, tab, true, true)
		inputs = append(inputs, p)
		plains = append(plains, a, b)
	}
	both := 0
	for round := 0; round < c.Rounds; round++ {
		out := filepath.Join(tmp, fmt.Sprintf("out%d.iso", round))
		codes := make([]int, c.Runners)
		errs := make([]error, c.Runners)
		start := make(chan struct{})
		var wg sync.WaitGroup
		for i := 0; i < c.Runners; i++ {
			wg.Add(1)
			go func(i int) {
				defer wg.Done()
				<-start
				codes[i], _, errs[i] = runTool(tmp, nil, "decrypt", "redump", inputs[i], filepath.Join(tmp, "k.dkey"), out)
			}(i)
		}
		close(start)
		wg.Wait()
		ok := 0
		winner := -1
		for i := range codes {
			if errs[i] != nil {
				return errs[i]
			}
			if codes[i] == 0 {
				ok++
				winner = i
			}
		}
		if ok > 1 {
			return hx.Failf("never-overwrites", "round %d: %d of %d runs started together on the same new output path reported success: one wrote over the file another had created", round, ok, c.Runners)
		}
		if ok == 1 {
			got, err := os.ReadFile(out)
			if err != nil {
				return hx.Failf("output-exact", "round %d: run %d reported success but the output cannot be read: %v", round, winner, err)
			}
			if !bytes.Equal(got, plains[2*winner]) && !bytes.Equal(got, plains[2*winner+1]) {
				return hx.Failf("output-exact", "round %d: run %d reported success, but the output (%d bytes) is not its plaintext", round, winner, len(got))
			}
			both++
		}
	}
	st.Label(fmt.Sprintf("runners=%d", c.Runners))
	if both > 0 {
		st.NT(fmt.Sprintf("%d|%d|%d|%d", c.Seed, c.Runners, c.SecA, c.SecB))
	}
	st.Sample(c)
	return nil
}

func TestC20Race(t *testing.T) {
	st := hx.NewStats("C20", "race")
	hx.RunProp(t, st, func(t *rapid.T) c20RaceCase {
		return c20RaceCase{Seed: rapid.Uint64Range(1, 1<<40).Draw(t, "seed"), Rounds: rapid.IntRange(4, 10).Draw(t, "rounds"),
			SecA: rapid.IntRange(8, 64).Draw(t, "a"), SecB: rapid.IntRange(8, 96).Draw(t, "b"), Runners: rapid.SampledFrom([]int{2, 2, 3, 4}).Draw(t, "runners")}
	}, runC20Race, hx.PropOpts{})
}
