package props

import (
	"bytes"
	"fmt"
	"io"
	"sort"
	"testing"

	"pgregory.net/rapid"

	pfs "github.com/xakep666/ps3netsrv-go/pkg/fs"
	"github.com/xakep666/ps3netsrv-go/verif/hx"
	"github.com/xakep666/ps3netsrv-go/verif/isoread"
)

// ---- C09: generated image reads are position independent -------------------------

type c09Op struct {
	Kind   string `json:"kind"` // read | seek | readat
	N      int    `json:"n,omitempty"`
	Off    int64  `json:"off,omitempty"`
	Whence int    `json:"whence,omitempty"`
	// OffRel: offset expressed relative to a structural boundary (resolved at run time):
	// index into the sorted boundary list, plus Off as delta. -1 = absolute.
	Bound int `json:"bound"`
	// EndBound/EndDelta (readat/read): length chosen so that the end lands at boundary+delta (Bound>=0 only)
	EndBound int `json:"end_bound"`
	EndDelta int `json:"end_delta,omitempty"`
	// ResumeBack k > 0 (readat, seek): the offset is where the k-th previous read of this case that returned data
	// ended - a reader coming back to a place it left, with other reads in between
	ResumeBack int `json:"resume_back,omitempty"`
}

type c09Case struct {
	Tree *hx.Node `json:"tree"`
	PS3  bool     `json:"ps3"`
	Ops  []c09Op  `json:"ops"`
	// Sweep: run the exhaustive boundary-pair sweep for this tree
	Sweep bool `json:"sweep"`
}

func genSmallIsoTree(t *rapid.T) *hx.Node {
	nf := rapid.IntRange(0, 4).Draw(t, "nfiles")
	root := hx.Dir("")
	d := hx.Dir("D1")
	useDir := rapid.Bool().Draw(t, "usedir")
	if useDir {
		root.Children = append(root.Children, d)
	}
	for i := 0; i < nf; i++ {
		sz := rapid.SampledFrom([]int64{0, 0, 1, 2047, 2048, 2049, 4095, 4096, 4097, 65535, 65536, 65537, 100000}).Draw(t, fmt.Sprintf("size%d", i))
		f := hx.File(fmt.Sprintf("F%d.BIN", i), sz, uint64(500+i))
		if useDir && rapid.Bool().Draw(t, fmt.Sprintf("indir%d", i)) {
			d.Children = append(d.Children, f)
		} else {
			root.Children = append(root.Children, f)
		}
	}
	return root
}

func genC09(t *rapid.T) c09Case {
	c := c09Case{Tree: genSmallIsoTree(t), PS3: rapid.IntRange(0, 3).Draw(t, "ps3") == 0}
	n := rapid.IntRange(1, 40).Draw(t, "nops")
	for i := 0; i < n; i++ {
		l := fmt.Sprintf("op%d", i)
		op := c09Op{Kind: rapid.SampledFrom([]string{"read", "read", "seek", "readat", "readat"}).Draw(t, l+"-kind"), Bound: -1, EndBound: -1}
		if rapid.IntRange(0, 2).Draw(t, l+"-rel") > 0 {
			op.Bound = rapid.IntRange(0, 30).Draw(t, l+"-bound")
			op.Off = int64(rapid.IntRange(-3, 3).Draw(t, l+"-delta"))
			if rapid.Bool().Draw(t, l+"-endrel") {
				op.EndBound = rapid.IntRange(0, 30).Draw(t, l+"-endbound")
				op.EndDelta = rapid.IntRange(-3, 3).Draw(t, l+"-enddelta")
			}
		} else {
			op.Off = rapid.Int64Range(-5000, 1<<21).Draw(t, l+"-off")
		}
		op.N = rapid.SampledFrom([]int{1, 2, 100, 2047, 2048, 2049, 4096, 5000, 65536, 65537, 1 << 20}).Draw(t, l+"-n")
		if op.Kind == "seek" {
			op.Whence = rapid.IntRange(0, 2).Draw(t, l+"-whence")
		}
		if op.Kind != "read" && rapid.IntRange(0, 4).Draw(t, l+"-resume") == 0 {
			op.ResumeBack = rapid.IntRange(1, 4).Draw(t, l+"-resumeback")
		}
		c.Ops = append(c.Ops, op)
	}
	// directed: leave a place inside one file, read somewhere else, come back to exactly that place
	for k := rapid.IntRange(0, 3).Draw(t, "ntrios"); k > 0; k-- {
		l := fmt.Sprintf("trio%d", k)
		for j := 0; j < 2; j++ {
			c.Ops = append(c.Ops, c09Op{Kind: "readat", Bound: rapid.IntRange(0, 30).Draw(t, fmt.Sprintf("%s-b%d", l, j)), EndBound: -1,
				Off: int64(rapid.SampledFrom([]int{0, 0, 1, 100, 2048, 3000}).Draw(t, fmt.Sprintf("%s-d%d", l, j))),
				N:   rapid.SampledFrom([]int{1, 100, 777, 2048, 2049, 5000}).Draw(t, fmt.Sprintf("%s-n%d", l, j))})
		}
		c.Ops = append(c.Ops, c09Op{Kind: rapid.SampledFrom([]string{"readat", "seek"}).Draw(t, l+"-kind"), Bound: -1, EndBound: -1, ResumeBack: 2,
			N: rapid.SampledFrom([]int{1, 100, 2048, 5000}).Draw(t, l+"-n")})
		if c.Ops[len(c.Ops)-1].Kind == "seek" {
			c.Ops = append(c.Ops, c09Op{Kind: "read", Bound: -1, EndBound: -1, N: 3000})
		}
	}
	c.Sweep = rapid.IntRange(0, 5).Draw(t, "sweep") == 0
	return c
}

// isoBoundaries derives the structural boundaries from the canonical image with the independent reader.
func isoBoundaries(img []byte) ([]int64, map[int64]string, error) {
	v, err := isoread.Parse(bytes.NewReader(img), int64(len(img)))
	if err != nil {
		return nil, nil, err
	}
	kinds := map[int64]string{}
	add := func(o int64, k string) {
		if _, ok := kinds[o]; !ok {
			kinds[o] = k
		}
	}
	add(0, "start")
	add(int64(len(img)), "total")
	var lastEnd int64
	var firstFile int64 = -1
	for _, f := range v.Primary.Files {
		for _, e := range f.Extents {
			if e.Len == 0 {
				continue
			}
			s := int64(e.LBA) * 2048
			add(s, "file-start")
			add(s+int64(e.Len), "file-end")
			pe := (s + int64(e.Len) + 2047) / 2048 * 2048
			add(pe, "file-padded-end")
			if pe > lastEnd {
				lastEnd = pe
			}
			if firstFile < 0 || s < firstFile {
				firstFile = s
			}
		}
	}
	// end of metadata = end of the last directory extent
	var metaEnd int64
	for _, h := range []*isoread.Hier{v.Primary, v.Joliet} {
		for _, d := range h.Dirs {
			if e := (int64(d.DirLBA))*2048 + int64(d.DirLen); e > metaEnd {
				metaEnd = e
			}
		}
	}
	add(metaEnd, "metadata-end")
	if lastEnd == 0 {
		lastEnd = metaEnd
	}
	add(lastEnd, "pad-start")
	var bs []int64
	for o := range kinds {
		bs = append(bs, o)
	}
	sort.Slice(bs, func(i, j int) bool { return bs[i] < bs[j] })
	return bs, kinds, nil
}

func c09CheckReadAt(viso *pfs.VirtualISO, img []byte, off int64, n int) error {
	buf := make([]byte, n)
	for i := range buf {
		buf[i] = 0xAA
	}
	got, err := viso.ReadAt(buf, off)
	size := int64(len(img))
	want := int64(n)
	if off >= size {
		want = 0
	} else if want > size-off {
		want = size - off
	}
	if off < 0 {
		if err == nil {
			return hx.Failf("readat-contract", "ReadAt(len %d, off %d): negative offset accepted (n=%d)", n, off, got)
		}
		return nil
	}
	if int64(got) != want {
		return hx.Failf("readat-contract", "ReadAt(len %d, off %d) on image of %d bytes returned n=%d err=%v, want n=%d", n, off, size, got, err, want)
	}
	if got > 0 && !bytes.Equal(buf[:got], img[off:off+int64(got)]) {
		d := 0
		for d < got && buf[d] == img[off+int64(d)] {
			d++
		}
		return hx.Failf("readat-bytes", "ReadAt(len %d, off %d): bytes differ from the canonical image at image offset %d", n, off, off+int64(d))
	}
	if got == n && err != nil {
		return hx.Failf("readat-contract", "ReadAt(len %d, off %d) filled the buffer but returned err=%v", n, off, err)
	}
	if got < n && err == nil {
		return hx.Failf("readat-contract", "ReadAt(len %d, off %d) returned %d bytes without an error: a positional read that comes back short must say why (io.EOF)", n, off, got)
	}
	if got < n && err != nil && err != io.EOF {
		return hx.Failf("readat-contract", "ReadAt(len %d, off %d) short read with err=%v (want nil or EOF)", n, off, err)
	}
	if got < n && err == nil && want < int64(n) {
		// allowed by DESIGN 2.1 (nil or EOF)
		return nil
	}
	return nil
}

func runC09(c c09Case, st *hx.Stats) error {
	tree := c.Tree
	if c.PS3 {
		tree = withPS3(tree, "BLES01234", nil)
	}
	fx, err := newIsoFixture(tree)
	if err != nil {
		return err
	}
	defer fx.Close()
	canon, err := pfs.NewVirtualISO(fx.Fs, fx.Root, c.PS3)
	if err != nil {
		return hx.Failf("image-creation", "NewVirtualISO failed for a plain tree: %v", err)
	}
	defer canon.Close()
	cst, _ := canon.Stat()
	img, err := readAllAligned(canon, 64*1024, 64<<20)
	if err != nil {
		return hx.Failf("sequential-read", "sequential aligned read failed at %d: %v", len(img), err)
	}
	if int64(len(img)) != cst.Size() {
		return hx.Failf("progress-to-size", "sequential read produced %d bytes, announced size %d", len(img), cst.Size())
	}
	bounds, kinds, err := isoBoundaries(img)
	if err != nil {
		return hx.Failf("image-parse", "canonical image unreadable by the independent reader: %v", err)
	}
	size := int64(len(img))
	// same object, rewound: timestamps and PS3 filler are those of the canonical read
	viso := canon
	if _, err := viso.Seek(0, io.SeekStart); err != nil {
		return hx.Failf("seek-contract", "Seek(0, SeekStart) failed: %v", err)
	}
	cur := int64(0)
	var ends []int64 // where the reads that returned data ended
	resolve := func(op c09Op) (int64, int) {
		off := op.Off
		n := op.N
		if op.ResumeBack > 0 && len(ends) > 0 {
			k := op.ResumeBack
			if k > len(ends) {
				k = len(ends)
			}
			st.Label("read resumed where an earlier read ended")
			return ends[len(ends)-k], n
		}
		if op.Bound >= 0 {
			b := bounds[op.Bound%len(bounds)]
			off = b + op.Off
			if op.EndBound >= 0 {
				e := bounds[op.EndBound%len(bounds)] + int64(op.EndDelta)
				if e > off && e-off <= 4<<20 {
					n = int(e - off)
				}
			}
		}
		return off, n
	}
	ntKey := func(kind string, off int64, n int) {
		for _, edge := range []int64{off, off + int64(n)} {
			for _, b := range bounds {
				if d := edge - b; d >= -3 && d <= 3 && (edge%2048 != 0 || off%2048 != 0 || n%2048 != 0) {
					lc := "small"
					if n >= 2048 {
						lc = "multi-sector"
					}
					st.Label("range edge at " + kinds[b] + "+-3 unaligned")
					st.NT(fmt.Sprintf("%s|%s|%d|%d|%s", kind, kinds[b], d, off%2048, lc))
				}
			}
		}
	}
	for i, op := range c.Ops {
		off, n := resolve(op)
		switch op.Kind {
		case "readat":
			if off < 0 && off < -3000 {
				off = 0
			}
			// (small negative offsets stay: the answer to them is an error, never a panic)
			if off >= 0 {
				ntKey("readat", off, n)
			}
			if err := c09CheckReadAt(viso, img, off, n); err != nil {
				return fmt.Errorf("op %d: %w", i, err)
			}
			if off >= 0 && off < size {
				ends = append(ends, min64i(off+int64(n), size))
			}
		case "read":
			ntKey("read", cur, n)
			buf := make([]byte, n)
			got, err := viso.Read(buf)
			if cur >= size {
				if got != 0 || err != io.EOF {
					return hx.Failf("read-eof", "op %d: Read(len %d) at cursor %d >= size %d returned n=%d err=%v, want (0, EOF)", i, n, cur, size, got, err)
				}
				continue
			}
			if got <= 0 || int64(got) > min64i(int64(n), size-cur) {
				return hx.Failf("read-contract", "op %d: Read(len %d) at cursor %d (size %d) returned n=%d err=%v", i, n, cur, size, got, err)
			}
			if !bytes.Equal(buf[:got], img[cur:cur+int64(got)]) {
				d := 0
				for d < got && buf[d] == img[cur+int64(d)] {
					d++
				}
				return hx.Failf("read-bytes", "op %d: Read(len %d) at cursor %d: bytes differ from the canonical image at image offset %d", i, n, cur, cur+int64(d))
			}
			if err != nil && !(err == io.EOF && cur+int64(got) == size) {
				return hx.Failf("read-contract", "op %d: Read(len %d) at cursor %d returned data with err=%v", i, n, cur, err)
			}
			cur += int64(got)
			ends = append(ends, cur)
		case "seek":
			var target int64
			arg := off
			switch op.Whence {
			case io.SeekStart:
				target = arg
			case io.SeekCurrent:
				arg = off - cur // aim at 'off' relative to current
				target = off
			case io.SeekEnd:
				arg = off - size
				target = off
			}
			pos, err := viso.Seek(arg, op.Whence)
			st.Label(fmt.Sprintf("seek whence=%d", op.Whence))
			switch {
			case target < 0:
				if err == nil {
					return hx.Failf("seek-contract", "op %d: Seek(%d, %d) to negative position %d succeeded (returned %d)", i, arg, op.Whence, target, pos)
				}
			case target <= size:
				if err != nil || pos != target {
					return hx.Failf("seek-contract", "op %d: Seek(%d, %d) at cursor %d (size %d) returned (%d, %v), want (%d, nil)", i, arg, op.Whence, cur, size, pos, err, target)
				}
				cur = target
			default:
				if err == nil {
					if pos != target {
						return hx.Failf("seek-contract", "op %d: Seek(%d, %d) beyond the end returned %d, want %d or an error", i, arg, op.Whence, pos, target)
					}
					cur = target
				}
			}
		}
	}
	// progress: from wherever we are, repeated reads reach exactly the announced size
	if cur < size {
		if _, err := viso.Seek(cur, io.SeekStart); err != nil {
			return hx.Failf("seek-contract", "Seek(%d) failed: %v", cur, err)
		}
		buf := make([]byte, 70001)
		for steps := 0; ; steps++ {
			got, err := viso.Read(buf)
			if got > 0 {
				if cur+int64(got) > size || !bytes.Equal(buf[:got], img[cur:cur+int64(got)]) {
					return hx.Failf("read-bytes", "tail read at %d (n=%d) differs from the canonical image or overruns size %d", cur, got, size)
				}
				cur += int64(got)
			}
			if err == io.EOF {
				break
			}
			if err != nil {
				return hx.Failf("read-contract", "tail read at %d failed: %v", cur, err)
			}
			if got == 0 || steps > 100000 {
				return hx.Failf("progress-to-size", "tail read makes no progress at %d", cur)
			}
		}
		if cur != size {
			return hx.Failf("progress-to-size", "reads ended at %d, announced size %d", cur, size)
		}
	}
	if c.Sweep {
		st.Label("exhaustive boundary-pair sweep")
		cnt := 0
		var edges []int64
		for _, b := range bounds {
			for d := int64(-1); d <= 1; d++ {
				if e := b + d; e >= 0 && e <= size+1 {
					edges = append(edges, e)
				}
			}
		}
		for _, a := range edges {
			for _, b := range edges {
				if b <= a || b-a > 1<<20 {
					continue
				}
				cnt++
				ntKey("sweep", a, int(b-a))
				if err := c09CheckReadAt(viso, img, a, int(b-a)); err != nil {
					return fmt.Errorf("sweep: %w", err)
				}
			}
		}
		st.EvalN(cnt)
	}
	var sizes []int64
	c.Tree.Walk(func(_ string, n *hx.Node) {
		if n.Kind == "file" {
			sizes = append(sizes, n.Size)
		}
	})
	st.Sample(map[string]any{"file_sizes": sizes, "ps3": c.PS3, "ops": len(c.Ops), "sweep": c.Sweep, "image_size": size, "boundaries": len(bounds)})
	return nil
}

func min64i(a, b int64) int64 {
	if a < b {
		return a
	}
	return b
}

func TestC09Lib(t *testing.T) {
	st := hx.NewStats("C09", "lib")
	hx.RunProp(t, st, genC09, runC09, hx.PropOpts{})
}
