package props

import (
	"fmt"
	"os"
	"testing"
	"time"

	"github.com/spf13/afero"
	"pgregory.net/rapid"

	"github.com/xakep666/ps3netsrv-go/verif/hx"
)

// ---- C16: idle connections are cut after the read timeout, active ones never -------------

type c16Case struct {
	TMs       int    `json:"t_ms"`
	Script    string `json:"script"`  // silent | after-k | stall | active
	K         int    `json:"k"`       // after-k: requests before going silent; stall: bytes of the request sent before stalling
	GapPct    int    `json:"gap_pct"` // active: spacing as percent of T (10..80)
	Mult      int    `json:"mult"`    // active: lifetime in multiples of T
	Target    string `json:"target"`
	OpenFirst bool   `json:"open_first"`        // hold an open file and directory while idling
	Kind      string `json:"kind,omitempty"`    // stall: which request is left incomplete: stat (default) | open | write (16-byte command + payload)
	Trickle   bool   `json:"trickle,omitempty"` // stall: after the first K bytes the rest keeps arriving one byte every GapPct% of T (never completing)
}

func genC16(t *rapid.T) c16Case {
	c := c16Case{TMs: rapid.SampledFrom([]int{150, 200, 300, 500, 800, 1500}).Draw(t, "t"), Target: "inproc",
		Script: rapid.SampledFrom([]string{"silent", "after-k", "stall", "stall", "active", "active", "deaf"}).Draw(t, "script"), OpenFirst: rapid.Bool().Draw(t, "open_first")}
	switch c.Script {
	case "deaf":
		c.Kind = rapid.SampledFrom([]string{"read", "crit", "pipelined"}).Draw(t, "deaf-kind")
	case "after-k":
		c.K = rapid.IntRange(1, 12).Draw(t, "k")
	case "stall":
		c.K = rapid.IntRange(1, 40).Draw(t, "bytes") // 1..15 inside the command, 16.. inside the path or payload
		c.Kind = rapid.SampledFrom([]string{"stat", "stat", "open", "write", "write"}).Draw(t, "kind")
		if c.Trickle = rapid.Bool().Draw(t, "trickle"); c.Trickle {
			c.GapPct = rapid.IntRange(20, 80).Draw(t, "trickle-gap")
		}
	case "active":
		c.GapPct = rapid.IntRange(10, 80).Draw(t, "gap")
		c.Mult = rapid.IntRange(5, 30).Draw(t, "mult")
		if c.TMs >= 800 && c.Mult > 10 {
			c.Mult = 10
		}
	}
	return c
}

type c16Result struct{ inconclusive bool }

func runC16Once(c c16Case, st *hx.Stats) (c16Result, error) {
	var res c16Result
	T := time.Duration(c.TMs) * time.Millisecond
	const eps = 15 * time.Millisecond
	slack := T
	if slack < 600*time.Millisecond {
		slack = 600 * time.Millisecond
	}
	root, err := hx.Scratch("c16")
	if err != nil {
		return res, err
	}
	defer os.RemoveAll(root)
	if err := hx.Materialize(root, hx.Dir("", hx.File("f.bin", 5000, 5), hx.Dir("d", hx.File("x", 1, 6)),
		&hx.Node{Name: "big.bin", Kind: "file", Size: 1 << 30, Seed: 7, Sparse: true, NoDefaultIslands: true})); err != nil {
		return res, err
	}
	var addr string
	var leaked func() []string
	var fdCount func() int
	switch c.Target {
	case "bin":
		b, err := hx.StartServerBin(root, []string{fmt.Sprintf("--read-timeout=%dms", c.TMs)}, nil, root)
		if err != nil {
			return res, err
		}
		defer b.Kill()
		addr = b.Addr
		fdCount = b.FDCount
	default:
		led := hx.NewLedger()
		tg, err := hx.StartInprocFs(&hx.LedgerFs{Fs: afero.NewBasePathFs(afero.NewOsFs(), root), L: led}, hx.InprocOpts{ReadTimeout: T})
		if err != nil {
			return res, err
		}
		defer tg.Close()
		addr = tg.Addr
		leaked = led.Leaked
	}
	baseFD := -1
	if fdCount != nil {
		time.Sleep(30 * time.Millisecond)
		baseFD = fdCount()
	}
	lastBegin := time.Now() // the begin of the connect counts as the begin of "the previous request" (taken before dialling: the server cannot arm its deadline earlier)
	conn, err := hx.Dial(addr)
	if err != nil {
		return res, err
	}
	defer conn.Close()
	conn.Timeout = T + slack + 2*time.Second
	m := hx.NewModel(root, false)
	m.MaskATime = true
	step := func(r hx.Req) error {
		lastBegin = time.Now()
		return m.Step(conn, r)
	}
	if c.OpenFirst {
		for _, r := range []hx.Req{{Op: "OPEN_FILE", Path: "/f.bin"}, {Op: "OPEN_DIR", Path: "/d"}, {Op: "READ_FILE", N: 100, Off: 0}} {
			if err := step(r); err != nil {
				return res, err
			}
		}
	}
	// expectCut: the server must end the connection, not before T-eps after lastBegin, not after T+slack
	expectCut := func(what string) error {
		t0 := time.Now()
		data, closed, err := conn.ReadToEnd(1 << 16)
		cutAt := time.Now()
		if len(data) > 0 {
			return hx.Failf("no-stray-bytes", "%s: %d bytes received while idle", what, len(data))
		}
		if err != nil || !closed {
			return hx.Failf("idle-cut", "%s: connection not cut within %v after going idle (T=%v)", what, time.Since(t0), T)
		}
		if d := cutAt.Sub(lastBegin); d < T-eps {
			return hx.Failf("not-cut-early", "%s: connection cut %v after the client began its last complete request, read timeout is %v", what, d, T)
		}
		if d := cutAt.Sub(t0); d > T+slack {
			return hx.Failf("idle-cut", "%s: connection cut only after %v (T=%v, slack %v)", what, d, T, slack)
		}
		return nil
	}
	switch c.Script {
	case "deaf":
		// the client asks for far more than socket buffers hold and then neither reads nor sends: it "does not deliver
		// a complete next request within T" just like a silent one, while the server is stuck writing to it
		if err := step(hx.Req{Op: "OPEN_FILE", Path: "/big.bin"}); err != nil {
			return res, err
		}
		var burst []byte
		switch c.Kind {
		case "crit":
			burst = hx.Req{Op: "READ_CRIT", N: 1 << 30, Off: 0}.Encode()
		case "pipelined":
			for i := 0; i < 4000; i++ {
				burst = append(burst, hx.Req{Op: "READ_FILE", N: 65536, Off: uint64(i) * 65536}.Encode()...)
			}
		default:
			burst = hx.Req{Op: "READ_FILE", N: 1 << 30, Off: 0}.Encode()
		}
		t0 := time.Now()
		go conn.Send(burst) // (a pipelined burst may itself block once the server stops reading)
		released := func() bool {
			if leaked != nil {
				return len(leaked()) == 0
			}
			return fdCount() <= baseFD
		}
		if !waitFor(T+slack+2*time.Second, released) {
			held := ""
			if leaked != nil {
				held = fmt.Sprint(leaked())
			}
			return res, hx.Failf("idle-cut", "a client that requested 1 GiB (%s) and then neither read nor sent anything is still being served %v later (T=%v): the connection and its open file are not released %s", c.Kind, time.Since(t0), T, held)
		}
		if st != nil {
			st.NT(fmt.Sprintf("deaf|%d|%s|%s", c.TMs, c.Kind, c.Target))
		}
		conn.Close()
		return res, nil
	case "silent":
		if err := expectCut("silent after connect"); err != nil {
			return res, err
		}
	case "after-k":
		for i := 0; i < c.K; i++ {
			if err := step(hx.Req{Op: "STAT", Path: "/f.bin"}); err != nil {
				return res, err
			}
		}
		if err := expectCut(fmt.Sprintf("silent after %d requests", c.K)); err != nil {
			return res, err
		}
	case "stall":
		var enc []byte
		switch c.Kind {
		case "open":
			enc = hx.Req{Op: "OPEN_FILE", Path: "/d/some/longer/path/inside/the/root/that/does/not/exist"}.Encode()
		case "write":
			enc = hx.Req{Op: "WRITE", N: 4000, Seed: 9}.Encode() // refused or not, its payload belongs to the request
		default:
			enc = hx.Req{Op: "STAT", Path: "/d/some/longer/path/inside/the/root/and/some/more/of/it"}.Encode()
		}
		k := c.K
		if k >= len(enc) {
			k = len(enc) - 1
		}
		if err := conn.Send(enc[:k]); err != nil {
			return res, err
		}
		what := fmt.Sprintf("stalled after %d of %d bytes of a %s request", k, len(enc), orDefault(c.Kind, "stat"))
		stop := make(chan struct{})
		done := make(chan struct{})
		if c.Trickle {
			// the rest keeps dribbling in, each gap shorter than T, the request never complete: still "no complete
			// next request within T"
			gap := T * time.Duration(c.GapPct) / 100
			what = fmt.Sprintf("%s request trickling in (1 byte every %v after %d of %d bytes)", orDefault(c.Kind, "stat"), gap, k, len(enc))
			go func() {
				defer close(done)
				for i := k; i < len(enc)-1; i++ {
					select {
					case <-stop:
						return
					case <-time.After(gap):
					}
					if conn.Send(enc[i:i+1]) != nil {
						return
					}
				}
			}()
		} else {
			close(done)
		}
		err := expectCut(what)
		close(stop)
		<-done
		if err != nil {
			return res, err
		}
		if c.Trickle {
			// the client does not fall silent after the cut either: bytes keep arriving at short intervals. The connection
			// is closed and what it held is released all the same - not only once the client has become quiet
			stop2, done2 := make(chan struct{}), make(chan struct{})
			go func() {
				defer close(done2)
				for {
					select {
					case <-stop2:
						return
					case <-time.After(40 * time.Millisecond):
					}
					if conn.Send([]byte{0}) != nil {
						return // the server has closed: the write fails, as it should
					}
				}
			}()
			ok := waitFor(slack+2*time.Second, func() bool {
				if leaked != nil {
					return len(leaked()) == 0
				}
				return fdCount == nil || baseFD < 0 || fdCount() <= baseFD
			})
			close(stop2)
			<-done2
			if !ok {
				held := ""
				if leaked != nil {
					held = fmt.Sprint(leaked())
				}
				return res, hx.Failf("released-after-cut", "%s: cut, but while the client keeps sending a byte every 40 ms what the connection held is not released %s", what, held)
			}
			if st != nil {
				st.Label("client keeps trickling after the cut: released all the same")
			}
		}
	case "active":
		gap := T * time.Duration(c.GapPct) / 100
		end := time.Now().Add(T * time.Duration(c.Mult))
		n := 0
		for time.Now().Before(end) {
			time.Sleep(gap)
			prev := lastBegin
			sendBegin := time.Now()
			err := step(hx.Req{Op: "STAT", Path: "/f.bin"})
			sent := time.Now()
			if measured := sent.Sub(prev); measured >= T*8/10 {
				// the machine was too slow to keep the promised pace: not judged
				res.inconclusive = true
				if err != nil {
					return res, nil
				}
			}
			if err != nil {
				return res, hx.Failf("active-kept", "request #%d of an active connection (spacing %v, T=%v, alive for %v) failed: %v", n, gap, T, sendBegin.Sub(end.Add(-T*time.Duration(c.Mult))), err)
			}
			n++
		}
		if st != nil {
			st.Label(fmt.Sprintf("active requests: %d", min(n/10*10, 100)))
			if n >= 10 && c.Mult >= 5 {
				st.NT(fmt.Sprintf("active|%d|%d|%d|%s", c.TMs, c.GapPct, c.Mult, c.Target))
			}
		}
		// and it still is cut once it goes idle
		if err := expectCut("idle after an active phase"); err != nil {
			return res, err
		}
	}
	conn.Close()
	// resources released after the cut
	if leaked != nil {
		ok := waitFor(3*time.Second, func() bool { return len(leaked()) == 0 })
		if !ok {
			return res, hx.Failf("released-after-cut", "after the idle cut these handles are still open: %v", leaked())
		}
	}
	if fdCount != nil && baseFD >= 0 {
		ok := waitFor(3*time.Second, func() bool { return fdCount() <= baseFD })
		if !ok {
			return res, hx.Failf("released-after-cut", "after the idle cut the process holds %d descriptors, baseline %d", fdCount(), baseFD)
		}
	}
	return res, nil
}

func runC16(c c16Case, st *hx.Stats) error {
	res, err := runC16Once(c, st)
	if f, ok := err.(*hx.Fail); ok && (f.Clause == "idle-cut" || f.Clause == "released-after-cut") {
		// a deadline miss is re-run once in isolation and counts only if it repeats
		if _, err2 := runC16Once(c, nil); err2 == nil {
			st.Inconcl()
			return nil
		}
	}
	if err != nil && isTimeoutErr(err) {
		if _, err2 := runC16Once(c, nil); err2 == nil {
			st.Inconcl()
			return nil
		}
	}
	if res.inconclusive {
		st.Inconcl()
		st.Label("active script too slow to judge (inconclusive)")
	}
	st.Label("script="+c.Script, "target="+c.Target, fmt.Sprintf("T=%dms", c.TMs))
	if c.Script == "stall" {
		st.NT(fmt.Sprintf("stall|%d|%d|%s|%v|%s|%v", c.TMs, c.K, c.Target, c.OpenFirst, c.Kind, c.Trickle))
		st.Label("incomplete request: "+orDefault(c.Kind, "stat"), fmt.Sprintf("trickle=%v", c.Trickle))
	}
	st.Sample(c)
	return err
}

func TestC16Idle(t *testing.T) {
	st := hx.NewStats("C16", "idle")
	hx.RunProp(t, st, genC16, runC16, hx.PropOpts{})
}

func TestC16IdleBin(t *testing.T) {
	st := hx.NewStats("C16", "idle-bin")
	hx.RunProp(t, st, func(t *rapid.T) c16Case { c := genC16(t); c.Target = "bin"; return c }, runC16, hx.PropOpts{})
}

// TestC16Matrix: the incomplete-request shapes as a fixed matrix (both tiers): which request x where it stops x
// whether the rest keeps trickling in x library/binary. The random units above sample timings; this one makes sure
// every shape is seen in every run.
func TestC16Matrix(t *testing.T) {
	st := hx.NewStats("C16", "matrix")
	st.MarkExhaustive("incomplete request {stat, open, write} x stops {inside the 16-byte command, inside the path/payload} x {silent, trickling at 0.3T and 0.7T} x holding open handles or not x {library, real binary}, T = 200 ms")
	cases := func(yield func(c16Case) bool) {
		for _, target := range []string{"inproc", "bin"} {
			for _, kind := range []string{"stat", "open", "write"} {
				for _, k := range []int{1, 9, 15, 16, 17, 30} {
					for _, gap := range []int{0, 30, 70} {
						c := c16Case{TMs: 200, Script: "stall", K: k, Kind: kind, Trickle: gap > 0, GapPct: gap, Target: target, OpenFirst: (k+gap)%2 == 0}
						if target == "bin" && (k == 9 || k == 17) {
							continue
						}
						if !yield(c) {
							return
						}
					}
				}
			}
		}
	}
	hx.RunCases(t, st, cases, runC16, hx.PropOpts{})
}
