package props

import (
	"encoding/hex"
	"fmt"
	"strings"
	"testing"

	"github.com/spf13/afero"

	"pgregory.net/rapid"

	"github.com/xakep666/ps3netsrv-go/verif/hx"
	"github.com/xakep666/ps3netsrv-go/verif/refcrypt"
)

// ---- C02: served bytes equal stored bytes -------------------------------------

type c02Case struct {
	hx.SessionCase
	// ImagePS3: tree is served as a generated image as well (objects "/***DVD***/img")
	Kinds []string `json:"kinds"`
}

func genC02Read(t *rapid.T, size int64, label string) hx.Req {
	op := rapid.SampledFrom([]string{"READ_FILE", "READ_FILE", "READ_CRIT"}).Draw(t, label+"-op")
	off, n := hx.GenReadRange(t, size, label)
	if off >= 1<<63 {
		// upper half of the unsigned range: behind the end of every object, nothing is transferred
		return hx.Req{Op: op, N: n, Off: off}
	}
	// bytes actually transferred are min(n, size-off): huge limits are fine against any file,
	// but keep the transferred amount bounded
	if int64(off) < size && size-int64(off) > 8<<20 && n > 8<<20 {
		n = 8 << 20
	}
	if rapid.IntRange(0, 19).Draw(t, label+"-huge") == 0 {
		n = uint32(rapid.SampledFrom([]int64{0x7fffffff, 0x7ffffffe, 1 << 30}).Draw(t, label+"-hn"))
		if int64(off) < size && size-int64(off) > 8<<20 {
			off = uint64(size - (1 << 20))
		}
	}
	if op == "READ_CRIT" && rapid.IntRange(0, 4).Draw(t, label+"-sat") > 0 {
		// mostly satisfiable so the history continues
		if int64(off) > size {
			off = uint64(size)
		}
		if int64(off)+int64(n) > size {
			n = uint32(size - int64(off))
		}
	}
	return hx.Req{Op: op, N: n, Off: off}
}

func genC02(t *rapid.T) hx.SessionCase {
	nfiles := rapid.IntRange(1, 4).Draw(t, "nfiles")
	root := hx.Dir("")
	sub := hx.Dir("sub")
	root.Children = append(root.Children, sub)
	var files []string
	var sizes []int64
	for i := 0; i < nfiles; i++ {
		var sz int64
		sparse := false
		switch rapid.IntRange(0, 11).Draw(t, fmt.Sprintf("f%d-class", i)) {
		case 0:
			// k*65536 +- 1
			sz = int64(rapid.IntRange(1, 40).Draw(t, fmt.Sprintf("f%d-k", i)))*65536 + int64(rapid.IntRange(-1, 1).Draw(t, fmt.Sprintf("f%d-d", i)))
		case 1:
			sz = rapid.Int64Range(0, 4<<20).Draw(t, fmt.Sprintf("f%d-rand", i))
		case 2:
			if hx.Thorough() || rapid.IntRange(0, 7).Draw(t, fmt.Sprintf("f%d-big", i)) == 0 {
				sz = rapid.SampledFrom([]int64{1<<32 - 2048, 1<<32 - 1, 1 << 32, 1<<32 + 1, 1<<32 + 2048, 5 << 30}).Draw(t, fmt.Sprintf("f%d-sp", i))
				sparse = true
			} else {
				sz = hx.GenSize(t, fmt.Sprintf("f%d-size", i), 300000)
			}
		default:
			sz = hx.GenSize(t, fmt.Sprintf("f%d-size", i), 300000)
		}
		n := &hx.Node{Name: fmt.Sprintf("f%d.bin", i), Kind: "file", Size: sz, Seed: uint64(1000 + i), Sparse: sparse,
			MTime: rapid.Int64Range(1_000_000_000, 1_700_000_000).Draw(t, fmt.Sprintf("f%d-mt", i))}
		if i%2 == 1 {
			sub.Children = append(sub.Children, n)
			files = append(files, "/sub/"+n.Name)
		} else {
			root.Children = append(root.Children, n)
			files = append(files, "/"+n.Name)
		}
		sizes = append(sizes, sz)
	}
	var reqs []hx.Req
	cur := -1
	var lastEnd int64 = -1 // where the previous read on the current file ended (clients read sequentially)
	nreq := rapid.IntRange(2, 24).Draw(t, "nreq")
	for i := 0; i < nreq; i++ {
		l := fmt.Sprintf("r%d", i)
		k := rapid.IntRange(0, 12).Draw(t, l+"-k")
		switch {
		case cur >= 0 && k == 10 && sizes[cur] >= 24+2352+2048 && sizes[cur] < 1<<31:
			// a CD sector read on the same handle moves the file position too
			maxSec := int((sizes[cur] - 24 - 2048) / 2352)
			start := rapid.IntRange(0, min(maxSec, 40)).Draw(t, l+"-cdstart")
			cnt := rapid.IntRange(1, 2).Draw(t, l+"-cdcount")
			if start+cnt-1 > maxSec {
				cnt = 1
			}
			reqs = append(reqs, hx.Req{Op: "READ_CD", Start: uint32(start), Count: uint32(cnt)})
		case cur >= 0 && lastEnd >= 0 && (k == 11 || k == 12):
			// continue exactly where the previous read stopped
			op := rapid.SampledFrom([]string{"READ_FILE", "READ_CRIT"}).Draw(t, l+"-cop")
			n := int64(rapid.SampledFrom([]int{1, 256, 2048, 4096, 65536, 70000}).Draw(t, l+"-cn"))
			if op == "READ_CRIT" && lastEnd+n > sizes[cur] {
				n = sizes[cur] - lastEnd
				if n < 0 {
					n = 0
				}
			}
			reqs = append(reqs, hx.Req{Op: op, N: uint32(n), Off: uint64(lastEnd)})
			lastEnd += n
			if lastEnd > sizes[cur] {
				lastEnd = sizes[cur]
			}
		case cur < 0 || k == 0:
			cur = rapid.IntRange(0, len(files)-1).Draw(t, l+"-file")
			reqs = append(reqs, hx.Req{Op: "OPEN_FILE", Path: hx.BStr(files[cur])})
			lastEnd = 0
		case k == 1:
			reqs = append(reqs, hx.Req{Op: rapid.SampledFrom([]string{"STAT", "OPEN_DIR", "DIR_SIZE"}).Draw(t, l+"-other"),
				Path: hx.BStr(rapid.SampledFrom([]string{"/", "/sub", files[0], "/missing"}).Draw(t, l+"-p"))})
		case k == 2:
			reqs = append(reqs, hx.Req{Op: rapid.SampledFrom([]string{"READ_DIR", "READ_ENTRY", "READ_ENTRY2"}).Draw(t, l+"-lst")})
		default:
			r := genC02Read(t, sizes[cur], l)
			reqs = append(reqs, r)
			if int64(r.Off) < sizes[cur] {
				lastEnd = int64(r.Off) + int64(r.N)
				if lastEnd > sizes[cur] {
					lastEnd = sizes[cur]
				}
			}
		}
	}
	return hx.SessionCase{Tree: root, AllowWrite: false, Reqs: reqs, Transport: rapid.SampledFrom([]string{"sync", "sync", "split"}).Draw(t, "transport"),
		SplitAt: rapid.IntRange(0, 15).Draw(t, "split")}
}

func near(v int64, m int64) bool {
	r := v % m
	return r <= 2 || r >= m-2
}

func c02Classify(c hx.SessionCase, st *hx.Stats, kind string) {
	var size int64 = -1
	var prevEnd2 int64 = -1
	afterCD := false
	for _, r := range c.Reqs {
		switch r.Op {
		case "OPEN_FILE":
			size = -1
			prevEnd2, afterCD = 0, false
			if n := c.Tree.Find(trimSlash(string(r.Path))); n != nil && n.Kind == "file" {
				size = n.Size
			}
		case "READ_CD":
			st.Label("op=READ_CD between reads")
			afterCD = true
		case "READ_FILE", "READ_CRIT":
			if size < 0 {
				continue
			}
			off, end := int64(r.Off), int64(r.Off)+int64(r.N)
			var ls []string
			if off == prevEnd2 && afterCD {
				ls = append(ls, "sequential continuation right after a CD sector read")
			}
			if off == prevEnd2 {
				ls = append(ls, "sequential continuation of the previous read")
			}
			if end >= size {
				ls = append(ls, "read crosses or touches EOF")
			}
			if off >= size {
				ls = append(ls, "offset >= size")
			}
			if r.N == 0 {
				ls = append(ls, "limit 0")
			}
			if near(off, 2048) || near(end, 2048) {
				ls = append(ls, "edge within 2 of a 2048 multiple")
			}
			if near(off, 65536) || near(end, 65536) {
				ls = append(ls, "edge within 2 of a 64 KiB multiple")
			}
			if off >= 1<<32 {
				ls = append(ls, "offset >= 4 GiB")
			}
			if r.N >= 1<<30 {
				ls = append(ls, "limit >= 2^30")
			}
			if kind != "plain" {
				ls = append(ls, "object="+kind)
			}
			prevEnd2 = end
			if prevEnd2 > size {
				prevEnd2 = size
			}
			afterCD = false
			st.Label(ls...)
			st.Label("op=" + r.Op)
			if len(ls) > 0 {
				st.NT(fmt.Sprintf("%s|%s|%d|%d|%d", kind, r.Op, size, r.Off, r.N))
			}
		}
	}
	st.Sample(map[string]any{"object": kind, "reqs": reqStrings(c.Reqs)})
}

func trimSlash(p string) string {
	for len(p) > 0 && p[0] == '/' {
		p = p[1:]
	}
	return p
}

func runC02(c hx.SessionCase, st *hx.Stats) error {
	c02Classify(c, st, "plain")
	return hx.RunSession(c, st, hx.SessionHooks{})
}

func TestC02Plain(t *testing.T) {
	st := hx.NewStats("C02", "plain")
	hx.RunProp(t, st, genC02, runC02, hx.PropOpts{WriteAhead: true})
}

// ---- non-plain objects: generated images and decrypted views over the network --------------

type c02ObjCase struct {
	Tree    *hx.Node          `json:"tree"` // source of the generated image
	PS3     bool              `json:"ps3"`
	TitleID string            `json:"title_id,omitempty"`
	Key     hx.BStr           `json:"key"`
	Regions []refcrypt.Region `json:"regions"`
	Sectors int               `json:"sectors"`
	Seed    uint64            `json:"seed"`
	K3y     bool              `json:"k3y"` // the encrypted image is a 3k3y one (embedded key) instead of PS3ISO + .dkey
	Reqs    []hx.Req          `json:"reqs"`
}

// maskedImage compares image bytes outside the fields that vary between opens (C18 mask).
type maskedImage struct {
	data []byte
	ps3  bool
}

func (m maskedImage) Size() int64 { return int64(len(m.data)) }
func (m maskedImage) ReadAt(off int64, n int) ([]byte, bool) {
	return hx.BytesObj(m.data).ReadAt(off, n)
}
func (m maskedImage) masked(abs int64) bool {
	s, o := abs/2048, abs%2048
	if (s == 16 || s == 17) && o >= 813 && o <= 846 {
		return true
	}
	return m.ps3 && s == 1 && o >= 64 && o < 512
}
func (m maskedImage) Match(off int64, got []byte) bool {
	exp, _ := m.ReadAt(off, len(got))
	if len(exp) != len(got) {
		return false
	}
	for i := range got {
		if got[i] != exp[i] && !m.masked(off+int64(i)) {
			return false
		}
	}
	return true
}

func genC02Obj(t *rapid.T) c02ObjCase {
	c := c02ObjCase{Tree: genSmallIsoTree(t), PS3: rapid.IntRange(0, 2).Draw(t, "ps3") == 0, Key: hx.BStr(rapid.SliceOfN(rapid.Byte(), 16, 16).Draw(t, "key")),
		Sectors: rapid.IntRange(6, 80).Draw(t, "sectors"), Seed: rapid.Uint64Range(1, 1<<40).Draw(t, "seed"), K3y: rapid.IntRange(0, 3).Draw(t, "k3y") == 0}
	if c.PS3 {
		c.TitleID = genTitleID(t)
	}
	c.Regions = genRegions(t, c.Sectors)
	if c.K3y {
		for c.Regions[0].End < 3 {
			for i := range c.Regions {
				if i > 0 && c.Regions[i].Start < 0xFFFFFFFE {
					c.Regions[i].Start++
				}
				if c.Regions[i].End < 0xFFFFFFFF {
					c.Regions[i].End++ // (borders at the 32-bit maximum stay where they are)
				}
			}
		}
	}
	imgPath := "/***DVD***/t"
	if c.PS3 {
		imgPath = "/***PS3***/t"
	}
	encPath := "/PS3ISO/e.iso"
	if c.K3y {
		encPath = "/k3y.iso"
	}
	cur := ""
	n := rapid.IntRange(3, 24).Draw(t, "nreq")
	for i := 0; i < n; i++ {
		l := fmt.Sprintf("r%d", i)
		k := rapid.IntRange(0, 9).Draw(t, l+"-k")
		switch {
		case cur == "" || k == 0:
			cur = rapid.SampledFrom([]string{imgPath, imgPath, encPath, encPath, "/plain.bin"}).Draw(t, l+"-obj")
			c.Reqs = append(c.Reqs, hx.Req{Op: "OPEN_FILE", Path: hx.BStr(cur)})
		case k == 1:
			c.Reqs = append(c.Reqs, hx.Req{Op: rapid.SampledFrom([]string{"STAT", "OPEN_DIR", "DIR_SIZE"}).Draw(t, l+"-other"), Path: "/t"})
		default:
			size := int64(c.Sectors * 2048)
			if cur == imgPath {
				size = 140 * 2048 // around the typical image size; the model knows the true one
			} else if cur == "/plain.bin" {
				size = 5000
			}
			r := genC02Read(t, size, l)
			if r.Op == "READ_CRIT" && cur == imgPath && int64(r.Off)+int64(r.N) > 60*2048 {
				r.Off, r.N = uint64(rapid.IntRange(0, 50*2048).Draw(t, l+"-io")), uint32(rapid.IntRange(0, 9*2048).Draw(t, l+"-in"))
			}
			c.Reqs = append(c.Reqs, r)
		}
	}
	return c
}

func runC02Obj(c c02ObjCase, st *hx.Stats) error {
	tree := c.Tree
	if c.PS3 {
		tree = withPS3(tree, c.TitleID, nil)
	}
	stored := hx.PRFBytes(c.Seed, 0, c.Sectors*2048)
	copy(stored, refcrypt.EncodeTable(c.Regions))
	if c.K3y {
		copy(stored[0xF70:], wmEnc)
		copy(stored[0xF80:], []byte(c.Key))
	}
	root := hx.Dir("", &hx.Node{Name: "t", Kind: "dir", Children: tree.Children}, hx.File("plain.bin", 5000, 77))
	if c.K3y {
		root.Children = append(root.Children, hx.RawFile("k3y.iso", stored))
	} else {
		root.Children = append(root.Children, hx.Dir("PS3ISO", hx.RawFile("e.iso", stored), hx.RawFile("e.dkey", []byte(hex.EncodeToString([]byte(c.Key))))))
	}
	tab := refcrypt.Table{Plain: c.Regions, Bytes: 8 + 8*len(c.Regions)}
	a, _ := refcrypt.Plaintext(stored, []byte(c.Key), tab, false, false)
	b, _ := refcrypt.Plaintext(stored, []byte(c.Key), tab, false, true)
	if c.K3y {
		a, b = mask3k3y(a), mask3k3y(b)
	}
	var canon []byte
	sc := hx.SessionCase{Tree: root, Reqs: c.Reqs, Transport: "sync"}
	kind := "image"
	c02Classify(sc, st, kind)
	h := hx.SessionHooks{Prepare: func(rootDir string, m *hx.Model) {
		// canonical image through the library (its agreement with the source tree is C07's subject)
		fx := &isoFixture{Tmp: rootDir, Fs: afero.NewBasePathFs(afero.NewOsFs(), rootDir), Root: "/t"}
		canon, _ = fetchImage(fx, c.PS3, "lib")
		m.ObjFor = func(clean string) hx.Obj {
			switch {
			case strings.HasPrefix(clean, "/***") && canon != nil:
				return maskedImage{canon, c.PS3}
			case clean == "/PS3ISO/e.iso" || clean == "/k3y.iso":
				return hx.MultiObj{a, b}
			}
			return nil
		}
	}}
	for _, r := range c.Reqs {
		if r.Op == "OPEN_FILE" {
			switch {
			case strings.Contains(string(r.Path), "***"):
				st.Label("object=generated image")
			case strings.HasSuffix(string(r.Path), ".iso"):
				st.Label("object=decrypted view")
			}
		}
	}
	return hx.RunSession(sc, st, h)
}

func TestC02Objects(t *testing.T) {
	st := hx.NewStats("C02", "objects")
	hx.RunProp(t, st, genC02Obj, runC02Obj, hx.PropOpts{WriteAhead: true})
}
