package props

import (
	"fmt"
	"os"
	"path/filepath"
	"strings"
	"testing"
	"time"

	"pgregory.net/rapid"

	"github.com/xakep666/ps3netsrv-go/verif/hx"
)

// ---- C05: write gating; exact uploads ------------------------------------------------

func genC05(t *rapid.T) hx.SessionCase {
	tree := hx.GenTree(t, hx.TreeOpts{MaxDepth: 2, MaxEntries: 5, MaxTotal: 14, MaxFile: 70000, Symlinks: false})
	// a directory usable as image source and an iso below PS3ISO
	tree.Children = append(tree.Children, hx.Dir("GAME", hx.File("X.BIN", 3000, 77)), hx.Dir("PS3ISO", hx.File("g.iso", 5000, 78)))
	// sometimes a real directory carrying a virtual-image prefix as its name: paths below it are still image paths
	if lit := rapid.SampledFrom([]string{"", "", "", "***DVD***", "***PS3***"}).Draw(t, "literal-prefix-dir"); lit != "" {
		tree.Children = append(tree.Children, hx.Dir(lit, hx.Dir("GAME", hx.File("Y.BIN", 10, 79))))
	}
	// symbolic links as targets of the mutating requests: to a directory, to a file, to nothing (a link is no
	// directory: DELETE removes the link itself, RMDIR refuses it, whatever it points to)
	if rapid.IntRange(0, 2).Draw(t, "links") > 0 {
		for _, l := range [][2]string{{"ln_dir", "GAME"}, {"ln_file", "PS3ISO/g.iso"}, {"ln_gone", "nothing-here"}, {"ln_dir2", "PS3ISO"}} {
			if rapid.IntRange(0, 2).Draw(t, "link-"+l[0]) > 0 {
				tree.Children = append(tree.Children, hx.Link(l[0], l[1]))
			}
		}
	}
	pool := hx.PoolOf(tree)
	var reqs []hx.Req
	n := rapid.IntRange(2, 30).Draw(t, "nreq")
	var uploaded []string
	for i := 0; i < n; i++ {
		l := fmt.Sprintf("r%d", i)
		switch rapid.IntRange(0, 13).Draw(t, l+"-k") {
		case 0, 1, 2:
			if rapid.IntRange(0, 5).Draw(t, l+"-restart") == 0 {
				// a transfer that is started over: the same path is created again while it is the open write file,
				// with data before and after
				p := "/" + hx.GenName(t, "portable", l+"-rn")
				sz := func(k string) uint32 {
					return uint32(rapid.SampledFrom([]int{1, 100, 4096, 65536, 70000}).Draw(t, l+k))
				}
				reqs = append(reqs, hx.Req{Op: "CREATE", Path: hx.BStr(p)}, hx.Req{Op: "WRITE", N: sz("-r1"), Seed: rapid.Uint64Range(1, 1<<40).Draw(t, l+"-rs1")},
					hx.Req{Op: "CREATE", Path: hx.BStr(p)}, hx.Req{Op: "WRITE", N: sz("-r2"), Seed: rapid.Uint64Range(1, 1<<40).Draw(t, l+"-rs2")})
				uploaded = append(uploaded, p)
				continue
			}
			// an upload: CREATE + chunks
			var p string
			switch rapid.IntRange(0, 11).Draw(t, l+"-target") {
			case 7, 8:
				// the same path again (a client restarting its transfer), or over a file uploaded before
				if len(uploaded) > 0 {
					p = uploaded[rapid.IntRange(0, len(uploaded)-1).Draw(t, l+"-again")]
					if rapid.Bool().Draw(t, l+"-last") {
						p = uploaded[len(uploaded)-1]
					}
				} else {
					p = "/" + hx.GenName(t, "portable", l+"-n")
				}
			case 9:
				// creates that fail for other reasons than a missing parent: through a regular file, over-long name, NUL
				switch rapid.IntRange(0, 2).Draw(t, l+"-badkind") {
				case 0:
					if len(pool.Files) > 0 {
						p = "/" + rapid.SampledFrom(pool.Files).Draw(t, l+"-thru") + "/x.bin"
					} else {
						p = "/GAME/X.BIN/x.bin"
					}
				case 1:
					p = "/" + strings.Repeat("n", 300)
				default:
					p = "/nul\x00name"
				}
			case 10:
				p = "/" + strings.Repeat("/deep", 13000)[:65000] // a path of ~64 KiB
			case 0:
				if len(pool.Files) > 0 {
					p = "/" + rapid.SampledFrom(pool.Files).Draw(t, l+"-existing")
				} else {
					p = "/up0.bin"
				}
			case 1:
				if len(pool.Dirs) > 0 {
					p = "/" + rapid.SampledFrom(pool.Dirs).Draw(t, l+"-dir") // a directory
				} else {
					p = "/"
				}
			case 2:
				p = "/nodir/" + hx.GenName(t, "portable", l+"-n")
			case 3, 11:
				p = rapid.SampledFrom([]string{"/***DVD***/GAME", "/***PS3***/GAME", "/***DVD***/GAME/X.BIN", "/***DVD***/new.bin", "/***PS3***/new.bin", "/***PS3***/GAME/Y.BIN"}).Draw(t, l+"-virt")
			case 4:
				if len(pool.Dirs) > 0 {
					p = "/" + rapid.SampledFrom(pool.Dirs).Draw(t, l+"-nested") + "/" + hx.GenName(t, "portable", l+"-n")
				} else {
					p = "/" + hx.GenName(t, "portable", l+"-n")
				}
			default:
				p = "/" + hx.GenName(t, "portable", l+"-n")
			}
			reqs = append(reqs, hx.Req{Op: "CREATE", Path: hx.BStr(p)})
			chunks := rapid.IntRange(0, 6).Draw(t, l+"-chunks")
			for j := 0; j < chunks; j++ {
				sz := rapid.SampledFrom([]int{0, 1, 100, 4096, 65535, 65536, 65537, 131072, 3*65536 + 1}).Draw(t, fmt.Sprintf("%s-c%d", l, j))
				reqs = append(reqs, hx.Req{Op: "WRITE", N: uint32(sz), Seed: rapid.Uint64Range(1, 1<<40).Draw(t, fmt.Sprintf("%s-s%d", l, j))})
			}
			uploaded = append(uploaded, p)
		case 3:
			reqs = append(reqs, hx.Req{Op: "WRITE", N: uint32(rapid.SampledFrom([]int{0, 5, 70000}).Draw(t, l+"-wn")), Seed: 99})
		case 4, 5:
			op := map[int]string{4: "DELETE", 5: "RMDIR"}[rapid.IntRange(4, 5).Draw(t, l+"-rmop")]
			p := hx.GenInsidePath(t, pool, l)
			if len(pool.Links) > 0 && rapid.IntRange(0, 2).Draw(t, l+"-rmlink") == 0 {
				p = "/" + rapid.SampledFrom(pool.Links).Draw(t, l+"-rml")
			}
			reqs = append(reqs, hx.Req{Op: op, Path: hx.BStr(p)})
		case 6:
			p := hx.GenInsidePath(t, pool, l)
			if rapid.Bool().Draw(t, l+"-new") {
				p = "/" + hx.GenName(t, "portable", l+"-mk")
			}
			reqs = append(reqs, hx.Req{Op: "MKDIR", Path: hx.BStr(p)})
		case 7:
			// read an uploaded (or any) file back through the server
			p := "/PS3ISO/g.iso"
			if len(uploaded) > 0 {
				p = rapid.SampledFrom(uploaded).Draw(t, l+"-back")
			}
			reqs = append(reqs, hx.Req{Op: "OPEN_FILE", Path: hx.BStr(p)}, hx.Req{Op: "READ_FILE", N: 400000, Off: 0}, hx.Req{Op: "READ_FILE", N: 70000, Off: 65530})
		case 8:
			reqs = append(reqs, hx.Req{Op: "OPEN_FILE", Path: hx.BStr(rapid.SampledFrom([]string{"/***DVD***/GAME", "/PS3ISO/g.iso", "/CLOSEFILE"}).Draw(t, l+"-open"))})
		case 9:
			reqs = append(reqs, hx.Req{Op: "OPEN_DIR", Path: hx.BStr(hx.GenInsidePath(t, pool, l))}, hx.Req{Op: "READ_DIR"})
		default:
			reqs = append(reqs, hx.Req{Op: rapid.SampledFrom([]string{"STAT", "DIR_SIZE"}).Draw(t, l+"-ro"), Path: hx.BStr(hx.GenInsidePath(t, pool, l))})
		}
	}
	return hx.SessionCase{Tree: tree, AllowWrite: rapid.IntRange(0, 2).Draw(t, "allow_write") > 0, Reqs: reqs,
		Transport: rapid.SampledFrom([]string{"sync", "sync", "split", "pipelined"}).Draw(t, "transport"), SplitAt: rapid.IntRange(0, 40).Draw(t, "split")}
}

func c05Classify(c hx.SessionCase, st *hx.Stats) {
	stateChanged, nt := false, false
	chunks := 0
	existing := map[string]bool{}
	c.Tree.Walk(func(rel string, n *hx.Node) {
		if n.Kind == "file" {
			existing["/"+rel] = true
		}
	})
	for _, r := range c.Reqs {
		switch r.Op {
		case "OPEN_FILE", "OPEN_DIR", "READ_DIR":
			stateChanged = true
		case "CREATE":
			chunks = 0
			if existing[string(r.Path)] {
				st.Label("CREATE of an existing file")
				nt = true
			}
			if stateChanged {
				st.Label("mutating request after a state-changing non-mutating one")
				nt = true
			}
		case "WRITE":
			chunks++
			if chunks >= 2 {
				st.Label("upload with >= 2 chunks")
				nt = true
			}
			if r.N > 65536 {
				st.Label("chunk larger than one transfer buffer")
				nt = true
			}
		case "DELETE", "MKDIR", "RMDIR":
			if stateChanged {
				nt = true
			}
			if strings.HasPrefix(string(r.Path), "/ln_") && r.Op != "MKDIR" {
				st.Label("DELETE/RMDIR aimed at a symbolic link (to a directory, a file, nothing)")
				nt = true
			}
		}
	}
	st.Label(fmt.Sprintf("allow_write=%v", c.AllowWrite), "transport="+c.Transport)
	if nt {
		st.NT(fmt.Sprintf("%v|%s|%s", c.AllowWrite, c.Transport, reqKey(c.Reqs)))
	}
	st.Sample(map[string]any{"allow_write": c.AllowWrite, "transport": c.Transport, "reqs": reqStrings(c.Reqs[:min(len(c.Reqs), 16)])})
}

func c05Hooks(c hx.SessionCase) hx.SessionHooks {
	var before map[string]hx.Snap
	return hx.SessionHooks{
		Prepare: func(root string, m *hx.Model) { before, _ = hx.Snapshot(root) },
		After: func(root string, m *hx.Model) error {
			if c.AllowWrite {
				return nil // effects were checked request by request
			}
			after, err := hx.Snapshot(root)
			if err != nil {
				return err
			}
			if d := hx.DiffSnap(before, after, false); d != "" {
				return hx.Failf("readonly-unchanged", "writing disabled but the tree changed: %s", d)
			}
			return nil
		},
	}
}

func runC05(c hx.SessionCase, st *hx.Stats) error {
	c05Classify(c, st)
	return hx.RunSession(c, st, c05Hooks(c))
}

func TestC05Sessions(t *testing.T) {
	st := hx.NewStats("C05", "sessions")
	hx.RunProp(t, st, genC05, runC05, hx.PropOpts{WriteAhead: true})
}

// TestC05Bin: the same gate on the real binary, writing enabled via flag, environment and INI file.
type c05BinCase struct {
	Channel string `json:"channel"` // none | flag | env | ini | flag-false-env-true
	Seed    uint64 `json:"seed"`
}

func runC05Bin(c c05BinCase, st *hx.Stats) error {
	tree := hx.Dir("", hx.File("keep.bin", 1000, 5), hx.Dir("d", hx.File("x", 10, 6)), hx.Dir("empty"))
	reqs := []hx.Req{
		{Op: "MKDIR", Path: "/made"}, {Op: "CREATE", Path: "/up.bin"}, {Op: "WRITE", N: 70000, Seed: c.Seed + 1}, {Op: "WRITE", N: 17, Seed: c.Seed + 2},
		{Op: "CREATE", Path: "/keep.bin"}, {Op: "WRITE", N: 5, Seed: c.Seed + 3}, {Op: "DELETE", Path: "/d/x"}, {Op: "RMDIR", Path: "/empty"},
		{Op: "CREATE", Path: "/***DVD***/d"}, {Op: "WRITE", N: 9, Seed: c.Seed + 4},
		{Op: "OPEN_FILE", Path: "/up.bin"}, {Op: "READ_FILE", N: 100000, Off: 0}, {Op: "STAT", Path: "/made"},
	}
	allow := c.Channel != "none"
	sc := hx.SessionCase{Tree: tree, AllowWrite: allow, Reqs: reqs, Transport: "sync"}
	h := c05Hooks(sc)
	h.Start = func(root string, _ bool) (*hx.Target, error) {
		var extra, env []string
		dir, err := hx.Scratch("cwd")
		if err != nil {
			return nil, err
		}
		switch c.Channel {
		case "flag":
			extra = []string{"--allow-write"}
		case "env":
			env = []string{"PS3NETSRV_ALLOW_WRITE=true"}
		case "ini":
			ini := filepath.Join(dir, "my.ini")
			_ = os.WriteFile(ini, []byte("[server]\nallow-write = true\n"), 0o644)
			extra = []string{"--config=" + ini}
		case "cwd-ini":
			_ = os.WriteFile(filepath.Join(dir, "config.ini"), []byte("[server]\nallow-write = true\n"), 0o644)
		}
		b, err := hx.StartServerBin(root, extra, env, dir)
		if err != nil {
			os.RemoveAll(dir)
			return nil, err
		}
		return hx.NewTarget(b.Addr, func() { b.Kill(); os.RemoveAll(dir) }), nil
	}
	st.Label("channel=" + c.Channel)
	st.NT("bin|" + c.Channel)
	st.Sample(map[string]any{"channel": c.Channel, "reqs": reqStrings(reqs)})
	return hx.RunSession(sc, st, h)
}

func TestC05Bin(t *testing.T) {
	st := hx.NewStats("C05", "bin")
	cases := func(yield func(c05BinCase) bool) {
		for i, ch := range []string{"none", "flag", "env", "ini", "cwd-ini"} {
			if !yield(c05BinCase{Channel: ch, Seed: hx.Seed()*100 + uint64(i)}) {
				return
			}
		}
	}
	hx.RunCases(t, st, cases, runC05Bin, hx.PropOpts{})
}

// ---- C05 huge uploads: one WRITE_FILE announcing 2 GiB or more --------------------------------------------------
//
// The reply of WRITE_FILE is a signed 32-bit count. A request whose payload cannot be acknowledged truthfully must
// not be carried out and then reported as a failure (or as a negative count): either it is refused (-1, nothing
// written, payload consumed, connection in step) or acknowledged with its exact count.

type c05HugeCase struct {
	N uint32 `json:"n"`
}

func runC05Huge(c c05HugeCase, st *hx.Stats) error {
	root, err := hx.Scratch("c05huge")
	if err != nil {
		return err
	}
	defer os.RemoveAll(root)
	tg, err := hx.StartInproc(root, hx.InprocOpts{AllowWrite: true})
	if err != nil {
		return err
	}
	defer tg.Close()
	conn, err := hx.Dial(tg.Addr)
	if err != nil {
		return err
	}
	defer conn.Close()
	conn.Timeout = 120 * time.Second
	m := hx.NewModel(root, true)
	if err := m.Step(conn, hx.Req{Op: "CREATE", Path: "/up.bin"}); err != nil {
		return err
	}
	hdr := hx.Req{Op: "WRITE", N: c.N}.Encode()[:16]
	if err := conn.Send(hdr); err != nil {
		return err
	}
	zeros := make([]byte, 4<<20)
	for left := int64(c.N); left > 0; {
		k := int64(len(zeros))
		if k > left {
			k = left
		}
		if err := conn.Send(zeros[:k]); err != nil {
			return hx.Failf("transport", "sending the payload failed after %d of %d bytes: %v", int64(c.N)-left, c.N, err)
		}
		left -= k
	}
	rep, closed, err := conn.ReadN(4)
	if err != nil {
		return err
	}
	if closed {
		return hx.Failf("reply-layout", "WRITE(n=%d): connection ended after %d of 4 reply bytes", c.N, len(rep))
	}
	res := int64(int32(uint32(rep[0])<<24 | uint32(rep[1])<<16 | uint32(rep[2])<<8 | uint32(rep[3])))
	fi, serr := os.Stat(filepath.Join(root, "up.bin"))
	if serr != nil {
		return hx.Failf("write-effect", "WRITE(n=%d): target vanished: %v", c.N, serr)
	}
	switch {
	case res == -1:
		if fi.Size() != 0 {
			return hx.Failf("write-truth", "WRITE(n=%d) answered -1 (failed) but %d bytes were stored", c.N, fi.Size())
		}
	case res == int64(c.N):
		if fi.Size() != int64(c.N) {
			return hx.Failf("write-effect", "WRITE(n=%d) answered %d but the file has %d bytes", c.N, res, fi.Size())
		}
	default:
		return hx.Failf("write-count", "WRITE(n=%d) answered %d (file has %d bytes)", c.N, res, fi.Size())
	}
	// still in step
	m2 := hx.NewModel(root, true)
	if err := m2.Step(conn, hx.Req{Op: "STAT", Path: "/up.bin"}); err != nil {
		return err
	}
	st.Label(fmt.Sprintf("payload=%d", c.N))
	st.NT(fmt.Sprintf("huge|%d", c.N))
	st.Sample(c)
	return nil
}

func TestC05Huge(t *testing.T) {
	st := hx.NewStats("C05", "huge")
	st.MarkExhaustive("WRITE_FILE with a payload of 2^31 bytes (both tiers) and of 2^31-1, 2^32-1 bytes (thorough)")
	cases := func(yield func(c05HugeCase) bool) {
		ns := []uint32{1 << 31}
		if hx.Thorough() {
			ns = append(ns, 1<<31-1, 1<<32-1)
		}
		for _, n := range ns {
			if !yield(c05HugeCase{N: n}) {
				return
			}
		}
	}
	hx.RunCases(t, st, cases, runC05Huge, hx.PropOpts{})
}
