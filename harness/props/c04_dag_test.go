package props

import (
	"fmt"
	"os"
	"path/filepath"
	"testing"
	"time"

	"github.com/xakep666/ps3netsrv-go/verif/hx"
)

// ---- C04 link DAG: a small tree of branching directory links ---------------------------------------------------------
//
// "No content of files or directories under the root can terminate the server": k levels of directories, each reached
// through f symbolic links from the level above, make f^k paths to the last level without any cycle.  A scan that
// identifies a directory by the path it was reached through multiplies the handful of real entries accordingly; the
// image of such a tree may be refused, but asking for it must not take the process down.  The real binary runs under a
// 3 GiB address-space limit (stated in the evidence): what a sound server needs for this request is far below that.

type c04DagCase struct {
	Levels int    `json:"levels"`
	Fan    int    `json:"fan"`
	Files  int    `json:"files"`
	Prefix string `json:"prefix"` // ***DVD*** | ***PS3***
}

const c04DagVLimitKB = 3 << 20

func (c c04DagCase) paths() float64 {
	p := 1.0
	for i := 0; i < c.Levels; i++ {
		p *= float64(c.Fan)
	}
	return p
}

func runC04Dag(c c04DagCase, st *hx.Stats) error {
	root, err := hx.Scratch("c04dag")
	if err != nil {
		return err
	}
	defer os.RemoveAll(root)
	if err := os.WriteFile(filepath.Join(root, "small.txt"), []byte("x"), 0o644); err != nil {
		return err
	}
	// /img holds links into /L1, /L1 into /L2, ..., the last level holds the (empty) files
	level := func(i int) string {
		if i == 0 {
			return filepath.Join(root, "img")
		}
		return filepath.Join(root, fmt.Sprintf("L%d", i))
	}
	for i := 0; i <= c.Levels; i++ {
		if err := os.Mkdir(level(i), 0o755); err != nil {
			return err
		}
		if i == c.Levels {
			for k := 0; k < c.Files; k++ {
				if err := os.WriteFile(filepath.Join(level(i), fmt.Sprintf("F%04d", k)), nil, 0o644); err != nil {
					return err
				}
			}
			break
		}
		for k := 0; k < c.Fan; k++ {
			if err := os.Symlink(fmt.Sprintf("../L%d", i+1), filepath.Join(level(i), string(rune('a'+k)))); err != nil {
				return err
			}
		}
	}
	b, err := hx.StartServerBinLimits(root, nil, nil, root, c04DagVLimitKB, 0)
	if err != nil {
		return err
	}
	defer b.Kill()
	st.Label(fmt.Sprintf("paths to the last level >= 2^10: %v", c.paths() >= 1024), "prefix="+c.Prefix)
	if c.paths()*float64(c.Files) >= 1e6 {
		st.NT(fmt.Sprintf("%+v", c))
	}
	st.Sample(map[string]any{"case": c, "real_entries": c.Levels*c.Fan + c.Files + c.Levels + 1, "entries_by_path": c.paths() * float64(c.Files)})
	conn, err := hx.Dial(b.Addr)
	if err != nil {
		return err
	}
	defer conn.Close()
	if err := conn.Send(hx.Req{Op: "OPEN_FILE", Path: hx.BStr("/" + c.Prefix + "/img")}.Encode()); err != nil {
		return err
	}
	// the answer may take its time and may be a refusal; what is judged is the process
	conn.Timeout = 150 * time.Second
	rep, closed, rerr := conn.ReadN(16)
	alive := func(when string) error {
		if crashed, what := b.Crashed(); crashed || b.Exited() {
			return hx.Failf("server-survives", "%s: the server process ended (ulimit -v %d KB) on OPEN_FILE /%s/img of a tree of %d directories, %d links and %d empty files: %s %s",
				when, c04DagVLimitKB, c.Prefix, c.Levels+1, c.Levels*c.Fan, c.Files, what, head(b.Stderr(), 600))
		}
		return nil
	}
	if err := alive("after the request"); err != nil {
		return err
	}
	if rerr != nil || closed || len(rep) < 16 {
		// no answer within the window: only a dead or deaf server is a violation
		st.Label("no answer within 150 s")
	} else if rep[0] == 0xff {
		st.Label("image refused")
	} else {
		st.Label("image built")
	}
	if err := c04Probe(b.Addr); err != nil {
		if e := alive("at the probe"); e != nil {
			return e
		}
		return hx.Failf("keeps-serving", "after OPEN_FILE /%s/img: %v", c.Prefix, err)
	}
	return alive("after the probe")
}

func TestC04LinkDag(t *testing.T) {
	st := hx.NewStats("C04", "linkdag")
	st.Note(fmt.Sprintf("worker = real binary under ulimit -v %d KB", c04DagVLimitKB))
	cases := func(yield func(c04DagCase) bool) {
		list := []c04DagCase{
			{Levels: 15, Fan: 2, Files: 300, Prefix: "***DVD***"},
			{Levels: 12, Fan: 2, Files: 3000, Prefix: "***PS3***"},
			{Levels: 9, Fan: 3, Files: 400, Prefix: "***DVD***"},
			{Levels: 17, Fan: 2, Files: 40, Prefix: "***DVD***"}, // more directories (by path) than a volume can number
			{Levels: 4, Fan: 2, Files: 20, Prefix: "***DVD***"},  // harmless size
		}
		if hx.Thorough() {
			list = append(list, c04DagCase{Levels: 14, Fan: 2, Files: 1000, Prefix: "***DVD***"}, c04DagCase{Levels: 7, Fan: 5, Files: 200, Prefix: "***PS3***"},
				c04DagCase{Levels: 20, Fan: 2, Files: 10, Prefix: "***PS3***"}, c04DagCase{Levels: 13, Fan: 2, Files: 150, Prefix: "***DVD***"})
		}
		for _, c := range list {
			if !yield(c) {
				return
			}
		}
	}
	hx.RunCases(t, st, cases, runC04Dag, hx.PropOpts{})
}
