package props

import (
	"bytes"
	"context"
	"encoding/binary"
	"encoding/hex"
	"fmt"
	"io"
	"os"
	"os/exec"
	"path/filepath"
	"strings"
	"sync"
	"testing"
	"time"

	"github.com/spf13/afero"
	"pgregory.net/rapid"

	pfs "github.com/xakep666/ps3netsrv-go/pkg/fs"
	"github.com/xakep666/ps3netsrv-go/verif/hx"
	"github.com/xakep666/ps3netsrv-go/verif/refcrypt"
)

// ---- C04: no client input and no on-disk content can crash the server ---------------------

// c04CLITimeLimit: the trees given to the tools here hold a few KB; the tools answer in milliseconds. Minutes mean
// the tool believes a number it read (hours of work), not a slow machine.
const c04CLITimeLimit = 3 * time.Minute

const c04VLimitKB = 8_000_000 // address-space limit of the worker: count-driven allocations show on any host

// hostile PARAM.SFO variants
func c04SFOVariants() map[string][]byte {
	good := sfoBytes([][2]string{{"CATEGORY", "DG"}, {"TITLE", "Some Game"}, {"TITLE_ID", "BLES01234"}})
	v := map[string][]byte{"ok": good, "empty": {}, "short": good[:10], "badmagic": append([]byte("XPSF"), good[4:]...)}
	mut := func(name string, f func(b []byte)) {
		b := append([]byte(nil), good...)
		f(b)
		v[name] = b
	}
	mut("keytable-beyond-eof", func(b []byte) { binary.LittleEndian.PutUint32(b[8:], 0x7fffffff) })
	mut("datatable-beyond-eof", func(b []byte) { binary.LittleEndian.PutUint32(b[12:], 0xfffffff0) })
	mut("huge-count", func(b []byte) { binary.LittleEndian.PutUint32(b[16:], 0xffffffff) })
	mut("count-zero", func(b []byte) { binary.LittleEndian.PutUint32(b[16:], 0) })
	mut("datalen-zero", func(b []byte) { binary.LittleEndian.PutUint32(b[20+32+4:], 0) })
	mut("datalen-one", func(b []byte) { binary.LittleEndian.PutUint32(b[20+32+4:], 1) })
	mut("datalen-huge", func(b []byte) { binary.LittleEndian.PutUint32(b[20+32+4:], 0xffffffff) })
	mut("dataoff-huge", func(b []byte) { binary.LittleEndian.PutUint32(b[20+32+12:], 0xffffffff) })
	mut("keyoff-huge", func(b []byte) { binary.LittleEndian.PutUint16(b[20+32:], 0xffff) })
	for _, id := range []string{"", "A", "AB", "ABC", "ABCD", "ABCDE", "BLES0123456789AB", strings.Repeat("Z", 60)} {
		v["titleid-len-"+fmt.Sprint(len(id))] = sfoBytes([][2]string{{"TITLE_ID", id}})
	}
	// lengths in characters and in bytes differ: few characters, many bytes (and the other way round does not exist)
	for name, id := range map[string]string{"cyr16": strings.Repeat("Ж", 16), "kana11": strings.Repeat("ゲ", 11), "mixed24": "NPEB" + strings.Repeat("é", 20),
		"cyr9": "БЛЕС00001", "cyr15a": strings.Repeat("Ж", 15) + "AB", "invalid-utf8-31": strings.Repeat("\xff", 31), "emoji8": strings.Repeat("😀", 8)} {
		v["titleid-"+name] = sfoBytes([][2]string{{"TITLE_ID", id}})
	}
	// a value shorter than its declared length, the rest of the slot zero (some tools store the whole slot)
	for _, id := range []string{"", "A", "AB", "ABC", "ABCD", "ABCDE"} {
		for _, pad := range []int{5, 12, 29} {
			v[fmt.Sprintf("titleid-nulpad-%d-%d", len(id), pad)] = sfoBytes([][2]string{{"TITLE_ID", id + strings.Repeat("\x00", pad)}})
		}
	}
	v["no-titleid"] = sfoBytes([][2]string{{"TITLE", "x"}})
	v["key-without-nul"] = bytes.TrimRight(good, "\x00")
	return v
}

// c04SparseSFOs: PARAM.SFO files whose declared numbers are backed by the file's length (holes cost no disk space):
// the parser cannot rely on "the file ends long before that".
func c04SparseSFOs() map[string]*hx.Node {
	mk := func(size int64, b []byte) *hx.Node {
		return &hx.Node{Name: "PARAM.SFO", Kind: "file", Size: size, Sparse: true, NoDefaultIslands: true, Patches: []hx.Patch{{Off: 0, Data: hx.BStr(b)}}}
	}
	out := map[string]*hx.Node{}
	for name, v := range map[string]uint32{"datalen-2g": 0x7fffffff, "datalen-4g": 0xffffffff, "datalen-1g": 1 << 30} {
		b := sfoBytes([][2]string{{"TITLE_ID", "BLES01234"}})
		binary.LittleEndian.PutUint32(b[20+4:], v)
		out[name] = mk(5<<30, b)
	}
	// the wanted key is never found, every further (zero) entry points at the first key again
	b := sfoBytes([][2]string{{"TITLE", "x"}})
	binary.LittleEndian.PutUint32(b[16:], 0xffffffff)
	out["count-4g"] = mk(70<<30, b)
	return out
}

func c04EncImage(regions []refcrypt.Region, sectors int) []byte {
	b := hx.PRFBytes(4242, 0, sectors*2048)
	copy(b, refcrypt.EncodeTable(regions))
	return b
}

// c04Fixture builds the static hostile root (pure data).
func c04Fixture() *hx.Node {
	okRegions := []refcrypt.Region{{Start: 0, End: 3}, {Start: 5, End: 7}, {Start: 9, End: 12}}
	enc := c04EncImage(okRegions, 16)
	key := []byte(hex.EncodeToString(c11KeyA))
	ps3iso := hx.Dir("PS3ISO", hx.RawFile("enc.iso", enc), hx.RawFile("enc.dkey", key))
	hdr := func(count uint32, body []byte) []byte {
		b := append([]byte(nil), enc...)
		binary.BigEndian.PutUint32(b, count)
		copy(b[8:], body)
		return b
	}
	for name, img := range map[string][]byte{
		"count0": hdr(0, nil), "count1": hdr(1, nil), "count256": hdr(256, nil), "count-max": hdr(0xffffffff, nil), "count-2g": hdr(0x80000000, nil),
		"nonmono":   hdr(3, []byte{0, 0, 0, 0, 0, 0, 0, 9, 0, 0, 0, 4, 0, 0, 0, 6, 0, 0, 0, 5, 0, 0, 0, 8}),
		"beyond":    hdr(2, []byte{0, 0, 0, 0, 0, 0, 0, 2, 0, 0xff, 0xff, 0xff, 0xff, 0xff, 0xff, 0xff}),
		"tiny":      enc[:10],
		"onesector": enc[:2048], "empty": {},
		"unaligned-end": enc[:16*2048-1000],
	} {
		ps3iso.Children = append(ps3iso.Children, hx.RawFile(name+".iso", img), hx.RawFile(name+".dkey", key))
	}
	for name, k := range map[string][]byte{"shortkey": []byte("0011"), "nonhex": []byte("zzzzzzzzzzzzzzzzzzzzzzzzzzzzzzzz"), "hugekey": bytes.Repeat([]byte("00112233"), 100000), "emptykey": {}} {
		ps3iso.Children = append(ps3iso.Children, hx.RawFile(name+".iso", enc), hx.RawFile(name+".dkey", k))
	}
	k3y := append([]byte(nil), enc...)
	copy(k3y[0xF70:], wmEnc)
	copy(k3y[0xF80:], c11KeyEmb)
	k3yBadTable := append([]byte(nil), k3y...)
	binary.BigEndian.PutUint32(k3yBadTable, 0xffffffff)
	k3yDec := append([]byte(nil), enc...)
	copy(k3yDec[0xF70:], wmDec)
	root := hx.Dir("", ps3iso,
		hx.RawFile("k3y.iso", k3y), hx.RawFile("k3y-exact.bin", k3y[:0x1070]), hx.RawFile("k3y-1short.bin", k3y[:0x106F]), hx.RawFile("k3y-badtable.iso", k3yBadTable), hx.RawFile("k3y-dec.iso", k3yDec),
		&hx.Node{Name: "big.bin", Kind: "file", Size: 16 << 20, Seed: 5, Sparse: true},
		&hx.Node{Name: "huge.bin", Kind: "file", Size: 5<<30 + 77, Seed: 41, Sparse: true}, // an ordinary disc image is larger than any 32-bit count
		&hx.Node{Name: "psx.bin", Kind: "file", Size: 3 << 20, Seed: 6, Sparse: true, Patches: []hx.Patch{{Off: 24 + 16*2352 + 8, Data: "PLAYSTATION "}}},
		&hx.Node{Name: "psx-sig-at-end.bin", Kind: "file", Size: 0x200000, Seed: 7, Sparse: true},
		hx.File("small.txt", 100, 8), hx.File("zero", 0, 9),
	)
	for name, sfo := range c04SFOVariants() {
		root.Children = append(root.Children, hx.Dir("GAME_"+name, hx.Dir("PS3_GAME", hx.RawFile("PARAM.SFO", sfo)), hx.File("EBOOT.BIN", 3000, 10), hx.File("EMPTY", 0, 11)))
	}
	for name, n := range c04SparseSFOs() {
		root.Children = append(root.Children, hx.Dir("GAME_sfo-sparse-"+name, hx.Dir("PS3_GAME", n), hx.File("EBOOT.BIN", 3000, 10)))
	}
	root.Children = append(root.Children, hx.Dir("GAME_sfo-is-dir", hx.Dir("PS3_GAME", hx.Dir("PARAM.SFO"))), hx.Dir("GAME_nosfo", hx.File("x", 1, 12)))
	// terabytes of sparse data: sources whose image would need more sectors than 32 (31) bits can number, and an
	// encrypted image longer than its own region map can describe
	tera := func(name string, size int64, seed uint64) *hx.Node {
		return &hx.Node{Name: name, Kind: "file", Size: size, Seed: seed, Sparse: true}
	}
	root.Children = append(root.Children,
		hx.Dir("GAME_tera5", tera("T5.BIN", 5<<40, 31), hx.File("x", 10, 32)),
		hx.Dir("GAME_tera9", tera("T9.BIN", 9<<40, 33), hx.File("x", 10, 34)),
		hx.Dir("GAME_tera2x3", tera("A.BIN", 3<<40, 35), tera("B.BIN", 3<<40-2048, 36), hx.File("x", 10, 37)),
		hx.Dir("GAME_tera4edge", tera("E.BIN", 1<<42-1<<20, 38), hx.File("x", 2<<20, 39)))
	teraIso := tera("tera.iso", 5<<40+1000, 40)
	teraIso.Patches = []hx.Patch{{Off: 0, Data: hx.BStr(refcrypt.EncodeTable([]refcrypt.Region{{Start: 0, End: 4}, {Start: 8, End: 0x7ffffff0}}))}}
	ps3iso.Children = append(ps3iso.Children, teraIso, hx.RawFile("tera.dkey", key))
	// deep, wide, long and odd names
	deep := hx.Dir("deep")
	cur := deep
	for i := 0; i < 40; i++ {
		n := hx.Dir(fmt.Sprintf("d%02d", i), hx.File("f", int64(i), uint64(100+i)))
		cur.Children = append(cur.Children, n)
		cur = n
	}
	wide := hx.Dir("wide")
	for i := 0; i < 600; i++ {
		wide.Children = append(wide.Children, hx.File(fmt.Sprintf("entry-%04d-%s", i, strings.Repeat("x", i%40)), int64(i%3), uint64(1000+i)))
	}
	names := hx.Dir("names", hx.File(strings.Repeat("L", 255), 5, 13), hx.File(strings.Repeat("é", 127), 5, 14), hx.File("sp ace", 1, 15), hx.File("new\nline", 1, 16), hx.File("tab\there", 1, 17),
		hx.File("\xff\xfe-invalid-utf8", 1, 18), hx.File("***DVD***", 1, 19), hx.Dir("***PS3***", hx.File("x", 1, 20)), hx.File("CLOSEFILE", 3, 21), hx.File("a;1", 1, 22), hx.File(strings.Repeat("w", 111), 1, 23),
		hx.Dir(strings.Repeat("D", 200), hx.File("in", 1, 24)), hx.Link("loop", "."), hx.Link("up", ".."), hx.Link("dangling", "nowhere"), hx.Link("tofile", "sp ace"))
	root.Children = append(root.Children, deep, wide, names, hx.Dir("a_directory_name_longer_than_sixteen", hx.File("f", 10, 25)), hx.Dir(strings.Repeat("V", 130), hx.File("f", 10, 26)))
	return root
}

// c04Paths: the objects of the fixture a hostile client would aim at. The 600 entries of /wide and the
// 40 levels of /deep are represented by a few of them, so that images, key files and game directories
// are not diluted.
var c04Paths = func() []string {
	var ps []string
	c04Fixture().Walk(func(rel string, n *hx.Node) {
		switch {
		case rel == "":
			ps = append(ps, "/")
		case strings.HasPrefix(rel, "wide/"):
			if strings.HasSuffix(rel, "0000") || strings.Contains(rel, "-0599-") {
				ps = append(ps, "/"+rel)
			}
		case strings.HasPrefix(rel, "deep/"):
			if c := strings.Count(rel, "/"); (c == 1 || c == 20 || c == 40) && n.Kind == "dir" {
				ps = append(ps, "/"+rel)
			}
		case strings.Count(rel, "/") <= 2:
			ps = append(ps, "/"+rel)
		}
	})
	return ps
}()

// c04Images: the objects behind which the parsers and the read arithmetic sit.
var c04Images = func() []string {
	var ps []string
	for _, p := range c04Paths {
		switch {
		case strings.HasSuffix(p, ".iso"), strings.HasSuffix(p, ".bin") && !strings.Contains(p, "EBOOT"):
			ps = append(ps, p)
		case strings.HasPrefix(p, "/GAME_") && strings.Count(p, "/") == 1:
			ps = append(ps, "/***PS3***"+p, "/***DVD***"+p)
		}
	}
	return ps
}()

// genC04ImageBlock: open one of the image-like objects and read it a few times with edge geometries.
func genC04ImageBlock(t *rapid.T, l string) []hx.Req {
	reqs := []hx.Req{{Op: "OPEN_FILE", Path: hx.BStr(rapid.SampledFrom(c04Images).Draw(t, l+"-img"))}}
	n := rapid.IntRange(1, 4).Draw(t, l+"-nreads")
	for i := 0; i < n; i++ {
		li := fmt.Sprintf("%s-b%d", l, i)
		off := uint64(rapid.SampledFrom([]int{0, 1, 23, 24, 2047, 2048, 2049, 0xF6F, 0xF70, 0xF71, 0xF80, 0xFFF, 0x1000, 0x106F, 0x1070, 0x1071, 6143, 6144, 6145, 8191, 16 * 2048, 32767, 32768, 65535, 65536}).Draw(t, li+"-off"))
		nn := uint32(rapid.SampledFrom([]int{1, 15, 16, 17, 255, 256, 257, 2047, 2048, 2049, 4096, 5000, 65535, 65536, 70000, 0x7fffffff, 0x80000000, 0xffffffff}).Draw(t, li+"-n"))
		if rapid.IntRange(0, 4).Draw(t, li+"-far") == 0 {
			off = hx.GenHugeOffset(t, li+"-faroff") // far behind the end of the image: where sector counters wrap
			if nn > 70000 {
				nn = 200
			}
		}
		reqs = append(reqs, hx.Req{Op: "READ_FILE", N: nn, Off: off})
	}
	return reqs
}

func genC04Req(t *rapid.T, l string) hx.Req {
	huge32 := []uint32{0, 1, 2047, 2048, 2049, 65535, 65536, 0x7fffffff, 0x80000000, 0xfffffffe, 0xffffffff}
	huge64 := []uint64{0, 1, 2047, 2048, 0xF6F, 0xF70, 0x1070, 4095, 6143, 6144, 65535, 1 << 31, 1 << 32, 1<<63 - 1, 1 << 63, 0xffffffffffffffff}
	switch rapid.IntRange(0, 15).Draw(t, l+"-k") {
	case 0, 1, 2, 3:
		p := rapid.SampledFrom(c04Paths).Draw(t, l+"-p")
		switch rapid.IntRange(0, 5).Draw(t, l+"-pre") {
		case 0:
			p = "/***DVD***" + p
		case 1:
			p = "/***PS3***" + p
		}
		return hx.Req{Op: "OPEN_FILE", Path: hx.BStr(p)}
	case 4, 5, 6:
		op := rapid.SampledFrom([]string{"READ_FILE", "READ_CRIT"}).Draw(t, l+"-op")
		n := rapid.SampledFrom(huge32).Draw(t, l+"-n")
		if rapid.Bool().Draw(t, l+"-small") {
			n = uint32(rapid.IntRange(0, 70000).Draw(t, l+"-ns"))
		}
		off := rapid.SampledFrom(huge64).Draw(t, l+"-off")
		if rapid.IntRange(0, 2).Draw(t, l+"-offpow") == 0 {
			off = hx.GenHugeOffset(t, l+"-offhuge")
		}
		if rapid.Bool().Draw(t, l+"-offsmall") {
			off = uint64(rapid.IntRange(0, 40000).Draw(t, l+"-os"))
		}
		return hx.Req{Op: op, N: n, Off: off}
	case 7:
		return hx.Req{Op: "READ_CD", Start: rapid.SampledFrom(huge32).Draw(t, l+"-s"), Count: rapid.SampledFrom([]uint32{0, 1, 2, 100, 0xffffffff}).Draw(t, l+"-c")}
	case 8:
		p := rapid.SampledFrom(c04Paths).Draw(t, l+"-p")
		return hx.Req{Op: rapid.SampledFrom([]string{"OPEN_DIR", "STAT", "DIR_SIZE", "CREATE", "DELETE", "MKDIR", "RMDIR"}).Draw(t, l+"-pop"), Path: hx.BStr(p)}
	case 9:
		return hx.Req{Op: rapid.SampledFrom([]string{"READ_DIR", "READ_ENTRY", "READ_ENTRY2"}).Draw(t, l+"-ls")}
	case 10:
		return hx.Req{Op: "WRITE", N: uint32(rapid.IntRange(0, 100000).Draw(t, l+"-wn")), Seed: 3}
	case 11:
		// a WRITE announcing far more than it sends, or nothing
		r := hx.Req{Op: "WRITE", N: rapid.SampledFrom(huge32).Draw(t, l+"-wn"), Seed: 3}
		enc := make([]byte, 16)
		binary.BigEndian.PutUint16(enc, hx.OpWrite)
		binary.BigEndian.PutUint32(enc[4:], r.N)
		return hx.Req{Op: "RAW", Raw: hx.BStr(enc)}
	case 12:
		return hx.Req{Op: "RAW", Raw: hx.BStr(rapid.SliceOfN(rapid.Byte(), 1, 64).Draw(t, l+"-raw"))}
	case 13:
		// valid opcode, random tail, path length from the hostile set
		b := make([]byte, 16)
		binary.BigEndian.PutUint16(b, uint16(0x1224+rapid.IntRange(0, 14).Draw(t, l+"-opc")))
		copy(b[2:], rapid.SliceOfN(rapid.Byte(), 14, 14).Draw(t, l+"-tail"))
		return hx.Req{Op: "RAW", Raw: hx.BStr(b)}
	case 14:
		return hx.Req{Op: "OPEN_FILE", Path: hx.BStr(strings.Repeat("/"+strings.Repeat("p", 200), rapid.IntRange(1, 320).Draw(t, l+"-long")))}
	default:
		return hx.Req{Op: "OPEN_FILE", Path: hx.BStr(rapid.SampledFrom([]string{"/CLOSEFILE", "", "/", "/***DVD***/", "/***PS3***", "/***DVD***/names/***PS3***", "/names/loop/loop/loop/loop", "/\x00", "/***DVD***/deep"}).Draw(t, l+"-sp"))}
	}
}

type c04Case struct {
	Sessions   [][]hx.Req `json:"sessions"`
	AllowWrite bool       `json:"allow_write"`
}

func genC04(t *rapid.T) c04Case {
	c := c04Case{AllowWrite: rapid.IntRange(0, 3).Draw(t, "aw") == 0}
	ns := rapid.SampledFrom([]int{1, 1, 1, 2, 3}).Draw(t, "nsess")
	for s := 0; s < ns; s++ {
		n := rapid.IntRange(1, 25).Draw(t, fmt.Sprintf("s%d-n", s))
		// "deep" sessions avoid requests that end the connection (unknown opcodes, unsatisfiable critical
		// reads, unseekable offsets), so that every request of the history is really processed; "wild" ones do not care
		deep := rapid.IntRange(0, 9).Draw(t, fmt.Sprintf("s%d-deep", s)) < 6
		var reqs []hx.Req
		for i := 0; i < n; i++ {
			if rapid.IntRange(0, 3).Draw(t, fmt.Sprintf("s%d-r%d-blk", s, i)) == 0 {
				reqs = append(reqs, genC04ImageBlock(t, fmt.Sprintf("s%d-r%d", s, i))...)
				continue
			}
			r := genC04Req(t, fmt.Sprintf("s%d-r%d", s, i))
			if deep && i < n-1 {
				switch r.Op {
				case "RAW", "READ_CD":
					r = hx.Req{Op: "STAT", Path: hx.BStr(rapid.SampledFrom(c04Paths).Draw(t, fmt.Sprintf("s%d-r%d-st", s, i)))}
				case "READ_CRIT":
					r.Op = "READ_FILE"
					fallthrough
				case "READ_FILE":
					if r.Off >= 1<<40 {
						r.Off = uint64(rapid.SampledFrom([]int{0, 1, 0xF6F, 0xF70, 0xF80, 0x1000, 0x106F, 0x1070, 2047, 2049, 4095, 6143, 6145}).Draw(t, fmt.Sprintf("s%d-r%d-o", s, i)))
					}
				}
			}
			reqs = append(reqs, r)
		}
		c.Sessions = append(c.Sessions, reqs)
	}
	return c
}

// c04Worker: one real server process per (shard, write mode) over the static hostile fixture.
type c04Worker struct {
	mu   sync.Mutex
	bin  *hx.Bin
	root string
}

var c04Workers = map[bool]*c04Worker{false: {}, true: {}}

func (w *c04Worker) get(allowWrite bool) (*hx.Bin, error) {
	w.mu.Lock()
	defer w.mu.Unlock()
	if w.bin != nil && !w.bin.Exited() {
		return w.bin, nil
	}
	if w.root == "" {
		root, err := hx.Scratch("c04root")
		if err != nil {
			return nil, err
		}
		if err := hx.Materialize(root, c04Fixture()); err != nil {
			return nil, err
		}
		w.root = root
	}
	var extra []string
	if allowWrite {
		extra = append(extra, "--allow-write")
	}
	b, err := hx.StartServerBinOpts(w.root, extra, nil, w.root, c04VLimitKB)
	if err != nil {
		return nil, err
	}
	w.bin = b
	return b, nil
}

func c04Probe(addr string) error {
	p, err := dialP("", addr)
	if err != nil {
		return fmt.Errorf("probe connection refused: %v", err)
	}
	defer p.close()
	p.send(hx.Req{Op: "STAT", Path: "/small.txt"})
	if !waitFor(8*time.Second, func() bool { n, _ := p.state(); return n >= 33 }) {
		n, eof := p.state()
		return fmt.Errorf("probe STAT not answered within 8 s (bytes %d, closed %v)", n, eof)
	}
	return nil
}

// playHostile sends the requests and drains whatever comes back (replies are not judged here: C04 is about survival).
func playHostile(addr string, reqs []hx.Req) {
	conn, err := hx.Dial(addr)
	if err != nil {
		return
	}
	defer conn.Close()
	done := make(chan struct{})
	go func() {
		defer close(done)
		buf := make([]byte, 1<<16)
		conn.C.SetReadDeadline(time.Now().Add(10 * time.Second))
		total := 0
		for {
			n, err := conn.C.Read(buf)
			total += n
			if err != nil || total > 256<<20 {
				return
			}
		}
	}()
	for _, r := range reqs {
		if err := conn.Send(r.Encode()); err != nil {
			break
		}
	}
	conn.CloseWrite()
	select {
	case <-done:
	case <-time.After(12 * time.Second):
	}
}

func runC04(c c04Case, st *hx.Stats) error {
	w := c04Workers[c.AllowWrite]
	b, err := w.get(c.AllowWrite)
	if err != nil {
		return err
	}
	var wg sync.WaitGroup
	for _, s := range c.Sessions {
		wg.Add(1)
		go func(s []hx.Req) { defer wg.Done(); playHostile(b.Addr, s) }(s)
	}
	wg.Wait()
	// classification
	img, unaligned := false, false
	for _, s := range c.Sessions {
		open := ""
		for _, r := range s {
			switch r.Op {
			case "OPEN_FILE":
				open = string(r.Path)
			case "READ_FILE", "READ_CRIT":
				if strings.Contains(open, "***") || strings.Contains(open, ".iso") || strings.Contains(open, "k3y") {
					img = true
					if r.Off%2048 != 0 || r.N%2048 != 0 {
						unaligned = true
					}
				}
			}
		}
	}
	if img && unaligned {
		st.Label("generated/decrypted image opened and read unaligned")
		st.NT(fmt.Sprintf("%v|%s", c.AllowWrite, reqKey(c.Sessions[0])))
	}
	st.Label(fmt.Sprintf("sessions=%d", len(c.Sessions)))
	st.Sample(map[string]any{"allow_write": c.AllowWrite, "first_session": reqStrings(c.Sessions[0][:min(len(c.Sessions[0]), 10)])})
	crashed, what := b.Crashed()
	if b.Exited() || crashed {
		out := head(b.Stderr(), 2500)
		w.mu.Lock()
		w.bin = nil
		w.mu.Unlock()
		return hx.Failf("server-survives", "the server process died during/after a hostile session (exited=%v): %s %s", b.Exited(), what, out)
	}
	if err := c04Probe(b.Addr); err != nil {
		// a second look: did it die meanwhile?
		time.Sleep(100 * time.Millisecond)
		crashed, what := b.Crashed()
		out := head(b.Stderr(), 2500)
		b.Kill()
		w.mu.Lock()
		w.bin = nil
		w.mu.Unlock()
		return hx.Failf("keeps-serving", "after a hostile session: %v (crashed=%v %s) %s", err, crashed, what, out)
	}
	return nil
}

func TestC04Sessions(t *testing.T) {
	st := hx.NewStats("C04", "sessions")
	st.Note(fmt.Sprintf("worker = real binary under ulimit -v %d KB", c04VLimitKB))
	defer func() {
		for _, w := range c04Workers {
			if w.bin != nil {
				w.bin.Kill()
			}
			if w.root != "" {
				os.RemoveAll(w.root)
			}
		}
	}()
	hx.RunProp(t, st, genC04, runC04, hx.PropOpts{})
}

// ---- hostile content: library constructors in-process, the CLI tools as processes ----------

type c04Content struct {
	Kind string   `json:"kind"` // sfo | table | key | k3y | tree
	Data hx.BStr  `json:"data"`
	Key  hx.BStr  `json:"key,omitempty"`
	Tree *hx.Node `json:"tree,omitempty"`
	Ops  []c09Op  `json:"ops,omitempty"`
	CLI  bool     `json:"cli"`
	// sfosparse: name of the c04SparseSFOs entry
	Variant string `json:"variant,omitempty"`
}

func genC04Content(t *rapid.T) c04Content {
	c := c04Content{Kind: rapid.SampledFrom([]string{"sfo", "sfo", "table", "table", "key", "k3y", "tree", "sfosparse"}).Draw(t, "kind"), CLI: rapid.IntRange(0, 3).Draw(t, "cli") == 0}
	mutate := func(b []byte, l string) []byte {
		b = append([]byte(nil), b...)
		n := rapid.IntRange(0, 6).Draw(t, l+"-nmut")
		for i := 0; i < n && len(b) > 0; i++ {
			pos := rapid.IntRange(0, min(len(b)-1, 80)).Draw(t, fmt.Sprintf("%s-pos%d", l, i))
			switch rapid.IntRange(0, 3).Draw(t, fmt.Sprintf("%s-how%d", l, i)) {
			case 0:
				b[pos] = rapid.SampledFrom([]byte{0, 1, 0x7f, 0x80, 0xff}).Draw(t, fmt.Sprintf("%s-v%d", l, i))
			case 1:
				b[pos] = rapid.Byte().Draw(t, fmt.Sprintf("%s-b%d", l, i))
			case 2:
				if pos+4 <= len(b) {
					binary.LittleEndian.PutUint32(b[pos:], rapid.SampledFrom([]uint32{0, 1, 0x7fffffff, 0x80000000, 0xffffffff, uint32(len(b)), uint32(len(b)) + 1}).Draw(t, fmt.Sprintf("%s-w%d", l, i)))
				}
			default:
				b = b[:pos]
			}
		}
		return b
	}
	switch c.Kind {
	case "sfo":
		vs := c04SFOVariants()
		name := rapid.SampledFrom(hx.SortedKeys(vs)).Draw(t, "variant")
		c.Data = hx.BStr(mutate(vs[name], "sfo"))
	case "table":
		regs := genRegions(t, 20)
		img := c04EncImage(regs, rapid.IntRange(1, 24).Draw(t, "sectors"))
		img = mutate(img, "tab")
		if rapid.Bool().Draw(t, "cut") && len(img) > 0 {
			img = img[:rapid.IntRange(0, len(img)).Draw(t, "cutat")]
		}
		c.Data = hx.BStr(img)
		c.Key = hx.BStr(rapid.SliceOfN(rapid.Byte(), 16, 16).Draw(t, "key"))
	case "key":
		c.Data = hx.BStr(rapid.SampledFrom([]string{"", "0", "00112233445566778899aabbccddeeff", "00112233445566778899aabbccddeef", "00112233445566778899AABBCCDDEEFF\n", "zz", " 0011", strings.Repeat("ab", 5000)}).Draw(t, "keytext"))
	case "k3y":
		img := c04EncImage([]refcrypt.Region{{Start: 0, End: 3}, {Start: 5, End: 7}}, 8)
		copy(img[0xF70:], wmEnc)
		copy(img[0xF80:], c11KeyEmb)
		img = img[:rapid.SampledFrom([]int{0xF6F, 0xF70, 0xF71, 0xF80, 0xF90, 0x106F, 0x1070, 0x1071, 8 * 2048}).Draw(t, "len")]
		if rapid.Bool().Draw(t, "breaktable") && len(img) > 16 {
			binary.BigEndian.PutUint32(img, rapid.SampledFrom([]uint32{0, 1, 255, 256, 0xffffffff}).Draw(t, "count"))
		}
		c.Data = hx.BStr(img)
	case "sfosparse":
		// numbers backed by the (sparse) file's length; only through the tools: a reader that believes them would
		// take this process down with it
		c.Variant = rapid.SampledFrom(hx.SortedKeys(c04SparseSFOs())).Draw(t, "variant")
		c.CLI = true
	case "tree":
		c.Tree = hx.GenTree(t, hx.TreeOpts{MaxDepth: 4, MaxEntries: 5, MaxTotal: 25, MaxFile: 5000, Symlinks: true, NameClass: []string{"portable", "long", "nonascii", "spaces", "casecollide", "mapcollide"}})
	}
	n := rapid.IntRange(1, 12).Draw(t, "nops")
	for i := 0; i < n; i++ {
		l := fmt.Sprintf("op%d", i)
		c.Ops = append(c.Ops, c09Op{Kind: rapid.SampledFrom([]string{"read", "seek", "readat"}).Draw(t, l+"-k"), N: rapid.SampledFrom([]int{0, 1, 17, 2047, 2048, 2049, 70000}).Draw(t, l+"-n"),
			Off: rapid.SampledFrom([]int64{-1, 0, 1, 0xF6F, 0xF70, 0x1070, 2047, 2048, 6143, 6144, 1 << 40}).Draw(t, l+"-off"), Whence: rapid.IntRange(0, 2).Draw(t, l+"-w")})
		if rapid.IntRange(0, 5).Draw(t, l+"-far") == 0 {
			c.Ops[len(c.Ops)-1].Off = int64(hx.GenHugeOffset(t, l+"-faroff") & (1<<63 - 1))
		}
	}
	return c
}

func exerciseFile(f afero.File, ops []c09Op) {
	for _, op := range ops {
		switch op.Kind {
		case "read":
			_, _ = f.Read(make([]byte, op.N))
		case "readat":
			off := op.Off
			if off < 0 {
				off = 0
			}
			_, _ = f.ReadAt(make([]byte, op.N), off)
		case "seek":
			_, _ = f.Seek(op.Off, op.Whence)
		}
	}
	_, _ = f.Seek(0, io.SeekStart)
	_, _ = io.CopyN(io.Discard, f, 1<<20)
}

func runC04Content(c c04Content, st *hx.Stats) error {
	dir, err := hx.Scratch("c04c")
	if err != nil {
		return err
	}
	defer os.RemoveAll(dir)
	st.Label("kind="+c.Kind, fmt.Sprintf("cli=%v", c.CLI))
	fsys := afero.NewBasePathFs(afero.NewOsFs(), dir)
	pf := &pfs.FS{Fs: fsys}
	var cliArgs [][]string
	passedFirstCheck := false
	switch c.Kind {
	case "sfo":
		os.MkdirAll(filepath.Join(dir, "game", "PS3_GAME"), 0o755)
		os.WriteFile(filepath.Join(dir, "game", "PS3_GAME", "PARAM.SFO"), []byte(c.Data), 0o644)
		os.WriteFile(filepath.Join(dir, "game", "EBOOT.BIN"), []byte("x"), 0o644)
		passedFirstCheck = len(c.Data) >= 20 && string(c.Data[:4]) == "\x00PSF"
		if f, err := pf.Open("/***PS3***/game"); err == nil {
			exerciseFile(f, c.Ops)
			f.Close()
		}
		cliArgs = append(cliArgs, []string{"make-iso", "--ps3-mode", filepath.Join(dir, "game"), filepath.Join(dir, "o.iso")})
	case "sfosparse":
		n := c04SparseSFOs()[c.Variant]
		if n == nil {
			return fmt.Errorf("unknown variant %q", c.Variant)
		}
		if err := hx.Materialize(dir, hx.Dir("", hx.Dir("game", hx.Dir("PS3_GAME", n), hx.File("EBOOT.BIN", 10, 3)))); err != nil {
			return err
		}
		passedFirstCheck = true
		st.Label("sfo numbers backed by the file's length: " + c.Variant)
		cliArgs = append(cliArgs, []string{"make-iso", "--ps3-mode", filepath.Join(dir, "game"), filepath.Join(dir, "o.iso")})
	case "table", "k3y":
		os.MkdirAll(filepath.Join(dir, "PS3ISO"), 0o755)
		os.WriteFile(filepath.Join(dir, "PS3ISO", "i.iso"), []byte(c.Data), 0o644)
		key := []byte(c.Key)
		if c.Kind == "table" {
			os.WriteFile(filepath.Join(dir, "PS3ISO", "i.dkey"), []byte(hex.EncodeToString(key)), 0o644)
			cliArgs = append(cliArgs, []string{"decrypt", "redump", filepath.Join(dir, "PS3ISO", "i.iso"), filepath.Join(dir, "PS3ISO", "i.dkey"), filepath.Join(dir, "o.iso")})
		} else {
			cliArgs = append(cliArgs, []string{"decrypt", "3k3y", filepath.Join(dir, "PS3ISO", "i.iso"), filepath.Join(dir, "o.iso")})
		}
		passedFirstCheck = len(c.Data) >= 24 && binary.BigEndian.Uint32([]byte(c.Data)) >= 2
		if f, err := pf.Open("/PS3ISO/i.iso"); err == nil {
			exerciseFile(f, c.Ops)
			f.Close()
		}
	case "key":
		os.MkdirAll(filepath.Join(dir, "PS3ISO"), 0o755)
		img := c04EncImage([]refcrypt.Region{{Start: 0, End: 3}, {Start: 5, End: 7}}, 8)
		os.WriteFile(filepath.Join(dir, "PS3ISO", "i.iso"), img, 0o644)
		os.WriteFile(filepath.Join(dir, "PS3ISO", "i.dkey"), []byte(c.Data), 0o644)
		passedFirstCheck = len(c.Data) >= 32
		_, _ = pfs.ReadKeyFile(bytes.NewReader([]byte(c.Data)))
		if f, err := pf.Open("/PS3ISO/i.iso"); err == nil {
			exerciseFile(f, c.Ops)
			f.Close()
		}
		cliArgs = append(cliArgs, []string{"decrypt", "redump", filepath.Join(dir, "PS3ISO", "i.iso"), filepath.Join(dir, "PS3ISO", "i.dkey"), filepath.Join(dir, "o.iso")})
	case "tree":
		os.Mkdir(filepath.Join(dir, "t"), 0o755)
		if err := hx.Materialize(filepath.Join(dir, "t"), c.Tree); err != nil {
			return err
		}
		passedFirstCheck = true
		for _, p := range []string{"/***DVD***/t", "/***PS3***/t"} {
			if f, err := pf.Open(p); err == nil {
				exerciseFile(f, c.Ops)
				f.Close()
			}
		}
		cliArgs = append(cliArgs, []string{"make-iso", filepath.Join(dir, "t"), filepath.Join(dir, "o.iso")})
	}
	if passedFirstCheck {
		st.Label("content passes the parser's first magic/length check")
		st.NT(fmt.Sprintf("%s|%x|%v", c.Kind, head2([]byte(c.Data), 48), len(c.Data)))
	}
	st.Sample(map[string]any{"kind": c.Kind, "bytes": len(c.Data), "cli": c.CLI, "head": fmt.Sprintf("%x", head2([]byte(c.Data), 24))})
	if c.CLI {
		for _, a := range cliArgs {
			ctx, cancel := context.WithTimeout(context.Background(), c04CLITimeLimit)
			cmd := exec.CommandContext(ctx, "/bin/sh", append([]string{"-c", fmt.Sprintf("ulimit -v %d; exec \"$0\" \"$@\"", c04VLimitKB), hx.BinPath()}, a...)...)
			cmd.Env = []string{"PATH=/usr/bin:/bin", "HOME=/nonexistent-home"}
			out, _ := cmd.CombinedOutput()
			timedOut := ctx.Err() != nil
			cancel()
			if timedOut {
				return hx.Failf("cli-error-exit", "%v: still running after %v on a tree of three small files (%s): neither result nor error exit", a[:2], c04CLITimeLimit, c.Kind+" "+c.Variant)
			}
			code := cmd.ProcessState.ExitCode()
			s := string(out)
			if strings.Contains(s, "panic:") || strings.Contains(s, "fatal error:") || strings.Contains(s, "goroutine 1 [") || code == 2 || code < 0 {
				return hx.Failf("cli-error-exit", "%v: exit %d with a crash instead of an error message: %s", a[:2], code, head(s, 1500))
			}
			st.Label(fmt.Sprintf("cli exit=%d", code))
		}
	}
	return nil
}

func TestC04Content(t *testing.T) {
	st := hx.NewStats("C04", "content")
	hx.RunProp(t, st, genC04Content, runC04Content, hx.PropOpts{WriteAhead: true})
}

// ---- C04 descriptors: the server under a small descriptor limit ----------------------------------------------------
//
// The real binary runs under `ulimit -n`. Neither one client reading the image of a tree with more files than that,
// nor more idle connections than that, may make it exit, stop accepting, or fail reads of other clients: once the
// pressure is gone (and, for the image reader, all the time) a new client is served.

type c04FDCase struct {
	Scenario string `json:"scenario"` // image-reader | idle-storm | both
	NoFile   int    `json:"nofile"`
	Files    int    `json:"files"`
	Idle     int    `json:"idle"`
	Chunk    int    `json:"chunk"`
}

func runC04FD(c c04FDCase, st *hx.Stats) error {
	root, err := hx.Scratch("c04fd")
	if err != nil {
		return err
	}
	defer os.RemoveAll(root)
	game := hx.Dir("GAME")
	for i := 0; i < c.Files; i++ {
		d := game
		if i%50 == 49 {
			d = hx.Dir(fmt.Sprintf("D%03d", i))
			game.Children = append(game.Children, d)
		}
		d.Children = append(d.Children, hx.File(fmt.Sprintf("F%04d.BIN", i), int64(1+i%3), uint64(500+i)))
	}
	if err := hx.Materialize(root, hx.Dir("", game, hx.File("small.txt", 100, 8))); err != nil {
		return err
	}
	b, err := hx.StartServerBinLimits(root, nil, nil, root, 0, c.NoFile)
	if err != nil {
		return err
	}
	defer b.Kill()
	probe := func(when string) error {
		if err := c04Probe(b.Addr); err != nil {
			crashed, what := b.Crashed()
			return hx.Failf("keeps-serving", "%s (ulimit -n %d): %v (exited=%v crashed=%v %s) %s", when, c.NoFile, err, b.Exited(), crashed, what, head(b.Stderr(), 1200))
		}
		return nil
	}
	if c.Scenario == "image-reader" || c.Scenario == "both" {
		conn, err := hx.Dial(b.Addr)
		if err != nil {
			return err
		}
		defer conn.Close()
		if err := conn.Send(hx.Req{Op: "OPEN_FILE", Path: "/***DVD***/GAME"}.Encode()); err != nil {
			return err
		}
		rep, closed, err := conn.ReadN(16)
		if err != nil {
			return err
		}
		if closed {
			return hx.Failf("reply-layout", "OPEN_FILE of the image of %d files ended the connection", c.Files)
		}
		var size int64
		for _, x := range rep[:8] {
			size = size<<8 | int64(x)
		}
		if size <= 0 {
			return hx.Failf("image-creation", "image of a tree of %d small files refused (size %d) under ulimit -n %d", c.Files, size, c.NoFile)
		}
		for off := int64(0); off < size; off += int64(c.Chunk) {
			n := int64(c.Chunk)
			if n > size-off {
				n = size - off
			}
			if err := conn.Send(hx.Req{Op: "READ_CRIT", N: uint32(n), Off: uint64(off)}.Encode()); err != nil {
				return hx.Failf("transport", "send: %v", err)
			}
			got, closed, err := conn.ReadN(int(n))
			if err != nil {
				return err
			}
			if closed {
				return hx.Failf("read-progress", "sequential read of the image of %d files (ulimit -n %d) ended at %d of %d bytes: %s", c.Files, c.NoFile, off+int64(len(got)), size, head(b.Stderr(), 600))
			}
		}
		// the reader stays connected with its image open: others must still be served
		for i := 0; i < 5; i++ {
			if err := probe(fmt.Sprintf("while one client holds the fully read image of %d files open, new client #%d", c.Files, i)); err != nil {
				return err
			}
		}
	}
	if c.Scenario == "idle-storm" || c.Scenario == "both" {
		var idle []*hx.Conn
		for i := 0; i < c.Idle; i++ {
			cn, err := hx.Dial(b.Addr)
			if err != nil {
				break // the backlog is full: fine, the point is what the server does
			}
			idle = append(idle, cn)
		}
		time.Sleep(300 * time.Millisecond)
		if b.Exited() {
			return hx.Failf("server-survives", "%d idle connections under ulimit -n %d: the server process exited: %s", len(idle), c.NoFile, head(b.Stderr(), 1200))
		}
		for _, cn := range idle {
			cn.Close()
		}
		time.Sleep(200 * time.Millisecond)
		if err := probe(fmt.Sprintf("after %d idle connections came and went", len(idle))); err != nil {
			return err
		}
	}
	if b.Exited() {
		return hx.Failf("server-survives", "the server process exited: %s", head(b.Stderr(), 1200))
	}
	st.Label("scenario="+c.Scenario, fmt.Sprintf("ulimit -n %d", c.NoFile))
	st.NT(fmt.Sprintf("%s|%d|%d|%d|%d", c.Scenario, c.NoFile, c.Files, c.Idle, c.Chunk))
	st.Sample(c)
	return nil
}

func TestC04Descriptors(t *testing.T) {
	st := hx.NewStats("C04", "descriptors")
	st.MarkExhaustive("real binary under ulimit -n {64, 256}: one client reads the whole image of a tree with 3x as many files (chunks 2 KiB / 64 KiB) and stays connected; 2x as many idle connections as descriptors come and go; both")
	cases := func(yield func(c04FDCase) bool) {
		for _, nf := range []int{64, 256} {
			for _, sc := range []string{"image-reader", "idle-storm", "both"} {
				for _, chunk := range []int{2048, 65536} {
					if sc == "idle-storm" && chunk != 2048 {
						continue
					}
					if !yield(c04FDCase{Scenario: sc, NoFile: nf, Files: 3 * nf, Idle: 2 * nf, Chunk: chunk}) {
						return
					}
				}
			}
		}
	}
	hx.RunCases(t, st, cases, runC04FD, hx.PropOpts{})
}
