package props

import (
	"encoding/hex"
	"fmt"
	"io"
	"os"
	"runtime"
	"strings"
	"syscall"
	"testing"
	"time"

	"github.com/spf13/afero"

	pfs "github.com/xakep666/ps3netsrv-go/pkg/fs"
	"pgregory.net/rapid"

	"github.com/xakep666/ps3netsrv-go/verif/hx"
	"github.com/xakep666/ps3netsrv-go/verif/refcrypt"
)

// ---- C13: handles are always released; I/O faults never produce wrong data ---------------

func c13Tree() *hx.Node {
	enc := hx.PRFBytes(771, 0, 8*2048)
	copy(enc, refcrypt.EncodeTable([]refcrypt.Region{{Start: 0, End: 3}, {Start: 5, End: 7}}))
	k3y := append([]byte(nil), enc...)
	copy(k3y[0xF70:], wmEnc)
	copy(k3y[0xF80:], c11KeyEmb)
	return hx.Dir("",
		hx.File("plain.bin", 150000, 61), hx.File("small.txt", 77, 62), hx.File("zero", 0, 63),
		hx.Dir("GAME", hx.File("A.BIN", 5000, 64), hx.File("E", 0, 65), hx.Dir("SUB", hx.File("B.BIN", 70000, 66))),
		hx.Dir("PS3GAME", hx.Dir("PS3_GAME", hx.RawFile("PARAM.SFO", sfoBytes([][2]string{{"TITLE", "x"}, {"TITLE_ID", "BLES01234"}}))), hx.File("EBOOT.BIN", 4000, 67)),
		hx.Dir("PS3ISO", hx.RawFile("g.iso", enc), hx.RawFile("g.dkey", []byte(hex.EncodeToString(c11KeyA))), hx.RawFile("r.iso", enc)),
		hx.Dir("REDKEY", hx.RawFile("r.dkey", []byte(hex.EncodeToString(c11KeyR)))),
		hx.RawFile("k3y.iso", k3y),
		hx.Dir("list", hx.File("f1", 10, 68), hx.File("f2", 2048, 69), hx.Dir("d1"), hx.Link("lf", "f1"), hx.Link("ld", "d1"), hx.Link("dangling", "nowhere")),
		hx.Dir("up"), hx.Dir("empty"),
		hx.Dir("special", hx.Fifo("pipe"), hx.File("beside", 5, 71),
			// named pipes where the server itself goes looking: a key file, a PARAM.SFO
			hx.Dir("PS3ISO", hx.File("p.iso", 4096, 72), hx.Fifo("p.dkey"), hx.File("q.iso", 4096, 73)),
			hx.Dir("REDKEY", hx.Fifo("q.dkey")),
			hx.Dir("PIPEGAME", hx.Dir("PS3_GAME", hx.Fifo("PARAM.SFO")), hx.File("EBOOT.BIN", 100, 74))),
		// a raw CD image inside the sector-size detection window, with a sector size that is not the default
		&hx.Node{Name: "cd2448.bin", Kind: "file", Size: 0x200000 + 2448*7, Seed: 70, Sparse: true,
			Patches: []hx.Patch{{Off: 24 + 16*2448, Data: "\x01CD001\x01\x00"}}, Spans: [][2]int64{{0, 24 + 40*2448}}},
	)
}

// c13ObjFor: expected views of the transformed objects of the fixture (decision table of C11).
func c13ObjFor(clean string, faulted bool) hx.Obj {
	tab := refcrypt.Table{Plain: []refcrypt.Region{{Start: 0, End: 3}, {Start: 5, End: 7}}, Bytes: 24}
	enc := hx.PRFBytes(771, 0, 8*2048)
	copy(enc, refcrypt.EncodeTable(tab.Plain))
	views := func(stored, key []byte, mask bool) [][]byte {
		a, _ := refcrypt.Plaintext(stored, key, tab, false, false)
		b, _ := refcrypt.Plaintext(stored, key, tab, false, true)
		if mask {
			a, b = mask3k3y(a), mask3k3y(b)
		}
		return [][]byte{a, b}
	}
	k3y := append([]byte(nil), enc...)
	copy(k3y[0xF70:], wmEnc)
	copy(k3y[0xF80:], c11KeyEmb)
	var vs [][]byte
	switch clean {
	case "/PS3ISO/g.iso":
		vs = views(enc, c11KeyA, false)
		if faulted { // a lookup that was made to fail (e.g. ENOENT on the key) legitimately selects another documented source
			vs = append(vs, enc)
		}
	case "/PS3ISO/r.iso":
		vs = views(enc, c11KeyR, false)
		if faulted {
			vs = append(vs, enc)
		}
	case "/k3y.iso":
		vs = views(k3y, c11KeyEmb, true)
		if faulted {
			vs = append(vs, k3y)
		}
	default:
		return nil
	}
	return hx.MultiObj(vs)
}

type c13Scenario struct {
	Name       string
	AllowWrite bool
	Reqs       []hx.Req
}

func c13Scenarios() []c13Scenario {
	P := func(op, p string) hx.Req { return hx.Req{Op: op, Path: hx.BStr(p)} }
	R := func(op string, n uint32, off uint64) hx.Req { return hx.Req{Op: op, N: n, Off: off} }
	return []c13Scenario{
		{"plain-reads", false, []hx.Req{P("OPEN_FILE", "/plain.bin"), R("READ_FILE", 70000, 0), R("READ_CRIT", 66000, 1000), R("READ_FILE", 100, 149990),
			P("OPEN_FILE", "/small.txt"), R("READ_FILE", 100, 0), P("OPEN_FILE", "/zero"), R("READ_FILE", 10, 0), P("STAT", "/plain.bin"), P("OPEN_FILE", "/CLOSEFILE")}},
		{"dvd-image", false, []hx.Req{P("OPEN_FILE", "/***DVD***/GAME"), R("READ_CRIT", 4096, 0), R("READ_FILE", 2048, 16*2048), R("READ_CRIT", 90000, 28*2048), R("READ_FILE", 70000, 40*2048),
			P("OPEN_FILE", "/***DVD***/GAME"), R("READ_FILE", 131072, 0), P("OPEN_FILE", "/small.txt")}},
		{"ps3-image", false, []hx.Req{P("OPEN_FILE", "/***PS3***/PS3GAME"), R("READ_CRIT", 4096, 0), R("READ_FILE", 65536, 30*2048), P("OPEN_FILE", "/***PS3***/GAME"), P("OPEN_FILE", "/CLOSEFILE")}},
		{"encrypted-adjacent-key", false, []hx.Req{P("OPEN_FILE", "/PS3ISO/g.iso"), R("READ_FILE", 16384, 0), R("READ_CRIT", 3000, 5000), R("READ_FILE", 100, 6143), P("OPEN_FILE", "/PS3ISO/g.iso"), R("READ_CRIT", 2048, 3*2048),
			R("READ_CRIT", 3000, 4*2048+100), R("READ_FILE", 6000, 4*2048), R("READ_FILE", 2000, 4*2048+40)}}, // reads that begin inside the surely encrypted sector 4
		{"encrypted-redkey", false, []hx.Req{P("OPEN_FILE", "/PS3ISO/r.iso"), R("READ_FILE", 16384, 0), R("READ_CRIT", 4097, 6000), R("READ_FILE", 2500, 4*2048), P("STAT", "/PS3ISO/r.iso")}},
		{"3k3y", false, []hx.Req{P("OPEN_FILE", "/k3y.iso"), R("READ_FILE", 16384, 0), R("READ_CRIT", 300, 0xF60), R("READ_FILE", 5000, 0x1000)}},
		{"listing", false, []hx.Req{P("OPEN_DIR", "/list"), {Op: "READ_ENTRY"}, {Op: "READ_ENTRY2"}, {Op: "READ_ENTRY"}, {Op: "READ_ENTRY2"}, {Op: "READ_ENTRY"}, {Op: "READ_ENTRY"}, {Op: "READ_ENTRY"},
			P("OPEN_DIR", "/list"), {Op: "READ_DIR"}, {Op: "READ_DIR"}, P("OPEN_DIR", "/GAME"), {Op: "READ_ENTRY2"}, P("OPEN_DIR", "/missing"), P("OPEN_DIR", "/plain.bin"), {Op: "READ_DIR"},
			P("STAT", "/list/ld"), P("DIR_SIZE", "/list"), P("DIR_SIZE", "/GAME"), P("OPEN_DIR", "/empty"), {Op: "READ_ENTRY"}}},
		{"cd-image", false, []hx.Req{P("OPEN_FILE", "/cd2448.bin"), {Op: "READ_CD", Start: 1, Count: 2}, {Op: "READ_CD", Start: 16, Count: 1}, R("READ_FILE", 3000, 24+2448),
			P("OPEN_FILE", "/cd2448.bin"), {Op: "READ_CD", Start: 3, Count: 1}}},
		{"special-file", true, []hx.Req{P("STAT", "/special/pipe"), P("OPEN_FILE", "/special/pipe"), P("OPEN_DIR", "/special/pipe"), P("OPEN_DIR", "/special"), {Op: "READ_DIR"},
			P("CREATE", "/special/pipe"), P("OPEN_FILE", "/special/beside"), R("READ_FILE", 10, 0), P("DIR_SIZE", "/special"),
			P("OPEN_FILE", "/special/PS3ISO/p.iso"), R("READ_FILE", 4096, 0), P("OPEN_FILE", "/special/PS3ISO/q.iso"), R("READ_FILE", 100, 5),
			P("OPEN_FILE", "/***PS3***/special/PIPEGAME"), P("OPEN_FILE", "/***DVD***/special/PIPEGAME"), P("STAT", "/special/beside")}},
		{"uploads", true, []hx.Req{P("CREATE", "/up/new.bin"), {Op: "WRITE", N: 70000, Seed: 9}, {Op: "WRITE", N: 100, Seed: 10}, P("CREATE", "/up/second.bin"), {Op: "WRITE", N: 10, Seed: 11},
			P("CREATE", "/small.txt"), P("MKDIR", "/up/dir"), P("DELETE", "/up/new.bin"), P("RMDIR", "/up/dir"), P("CREATE", "/up"), P("OPEN_FILE", "/up/second.bin"), R("READ_FILE", 100, 0)}},
		{"mixed-state", true, []hx.Req{P("OPEN_DIR", "/list"), {Op: "READ_ENTRY"}, P("OPEN_FILE", "/***DVD***/GAME"), R("READ_CRIT", 5000, 28*2048), P("CREATE", "/up/x.bin"), {Op: "WRITE", N: 5000, Seed: 12},
			{Op: "READ_ENTRY2"}, R("READ_FILE", 100, 0)}},
	}
}

type c13Case struct {
	Scenario string `json:"scenario"`
	// Mode: baseline | fail-op | short-read | partial-read | partial-eof | partial-list | ending | pair
	Mode   string `json:"mode"`
	K      int    `json:"k"`                // op / read index, or prefix length for endings
	K2     int    `json:"k2"`               // second fault (pair) ; -1 none
	Errno  int    `json:"errno"`            // injected error
	Ending string `json:"ending"`           // halfclose | close | rst | truncated | unknown | timeout
	PartN  int    `json:"part_n,omitempty"` // partial-list: entries handed out together with the error
	// generated scenario (thorough): requests carried in the case
	Reqs       []hx.Req `json:"reqs,omitempty"`
	AllowWrite bool     `json:"allow_write,omitempty"`
}

func (c c13Case) scenario() c13Scenario {
	if c.Scenario == "generated" {
		return c13Scenario{Name: "generated", AllowWrite: c.AllowWrite, Reqs: c.Reqs}
	}
	for _, s := range c13Scenarios() {
		if s.Name == c.Scenario {
			return s
		}
	}
	return c13Scenario{}
}

// c13Touched: does the history contain a mutating request naming this path?
func c13Touched(c c13Case, clean string) bool {
	m := hx.NewModel("/", true)
	for _, r := range c.scenario().Reqs {
		switch r.Op {
		case "CREATE", "DELETE", "RMDIR", "MKDIR":
			_, cl, _ := m.Resolve(string(r.Path))
			if cl == clean {
				return true
			}
			// the image's key sources count as well: a key file that was replaced, removed or added decides how
			// (and whether) the image can be opened
			if strings.HasPrefix(clean, "/PS3ISO/") && (strings.HasPrefix(cl, "/PS3ISO") || strings.HasPrefix(cl, "/REDKEY")) {
				return true
			}
		}
	}
	return false
}

type c13Result struct {
	ops, reads int
	fired      []string
	openAtFire int
	oplog      []string
}

func runC13Once(c c13Case, st *hx.Stats) (*c13Result, error) {
	return runC13With(c, st, 150*time.Millisecond)
}

// runC13With: readTimeout is the server's idle limit in the "timeout" ending.
func runC13With(c c13Case, st *hx.Stats, readTimeout time.Duration) (*c13Result, error) {
	sc := c.scenario()
	root, err := hx.Scratch("c13")
	if err != nil {
		return nil, err
	}
	defer os.RemoveAll(root)
	if err := hx.Materialize(root, c13Tree()); err != nil {
		return nil, err
	}
	led := hx.NewLedger()
	switch c.Mode {
	case "fail-op", "pair", "partial-list":
		led.PartialDir, led.PartialN = c.Mode == "partial-list", c.PartN
		led.FailAt = c.K
		led.FailErr = syscall.Errno(c.Errno)
		if c.Mode == "pair" {
			led.FailAt2 = c.K2
		}
	case "partial-read", "partial-eof":
		// the read comes back with some bytes AND an error
		led.ShortAt = c.K
		led.ShortTo = 1 + (c.K*977+c.Errno)%3000
		led.ShortErr = syscall.EIO
		if c.Mode == "partial-eof" {
			// ... and the error is "end of file", although the file goes on (it was longer when it was measured):
			// the missing bytes must not be made up
			led.ShortErr = io.EOF
		}
	case "short-read":
		led.ShortAt = c.K
		led.ShortTo = 1 + c.K%37
	}
	base := &hx.LedgerFs{Fs: afero.NewBasePathFs(afero.NewOsFs(), root), L: led}
	g0 := runtime.NumGoroutine()
	opts := hx.InprocOpts{AllowWrite: sc.AllowWrite}
	if c.Ending == "timeout" || c.Ending == "stalled" {
		opts.ReadTimeout = readTimeout
	}
	tg, err := hx.StartInprocFs(base, opts)
	if err != nil {
		return nil, err
	}
	conn, err := hx.Dial(tg.Addr)
	if err != nil {
		tg.Close()
		return nil, err
	}
	m := hx.NewModel(root, sc.AllowWrite)
	m.St = st
	m.MaskATime = true
	m.Lenient = func() bool { return led.HasFired() }
	pristine := map[string]bool{"/PS3ISO/g.iso": true, "/PS3ISO/r.iso": true, "/k3y.iso": true}
	m.ObjFor = func(clean string) hx.Obj {
		if strings.HasPrefix(clean, "/***DVD***/") || strings.HasPrefix(clean, "/***PS3***/") {
			// a generated image: its content is what the library builds from the same directory without any fault
			// (read here directly from the disk, past the fault layer), compared under the C18 mask. Histories
			// that change the tree leave only the length to judge.
			ps3 := strings.HasPrefix(clean, "/***PS3***/")
			for _, r := range sc.Reqs {
				switch r.Op {
				case "CREATE", "DELETE", "RMDIR", "MKDIR", "WRITE":
					return nil
				}
			}
			f, err := (&pfs.FS{Fs: afero.NewBasePathFs(afero.NewOsFs(), root)}).Open(clean)
			if err != nil {
				return nil
			}
			defer f.Close()
			img, err := io.ReadAll(io.LimitReader(f, 64<<20))
			if err != nil || len(img) >= 64<<20 {
				return nil
			}
			return maskedImage{data: img, ps3: ps3}
		}
		if !pristine[clean] {
			return nil
		}
		// an upload in this history may have replaced the fixture's content: then only lengths are judged
		if fi, err := os.Stat(root + clean); err != nil || fi.Size() != 8*2048 || c13Touched(c, clean) {
			if err == nil {
				return hx.SizedObj{N: fi.Size()}
			}
			return nil
		}
		// only a lookup that was told "no such file" may legitimately fall through to another key source or to the
		// raw content; any other failure of the key lookup (I/O error, no permission, too many open files) must fail
		// the open or end the connection, never serve the stored ciphertext as if there were no key
		absent := led.HasFired() && (c.Mode == "fail-op" || c.Mode == "pair") && syscall.Errno(c.Errno) == syscall.ENOENT
		return c13ObjFor(clean, absent)
	}
	m.OpenMayFail = func(clean string) bool { return pristine[clean] && c13Touched(c, clean) }
	reqs := sc.Reqs
	if c.Mode == "ending" && c.K < len(reqs) {
		reqs = reqs[:c.K]
	}
	var runErr error
	for i, r := range reqs {
		if m.Ended {
			break
		}
		if err := m.Step(conn, r); err != nil {
			if f, ok := err.(*hx.Fail); ok {
				runErr = &hx.Fail{Clause: f.Clause, Msg: fmt.Sprintf("request #%d: %s [trace: %s] [faults: %v]", i, f.Msg, m.Dump(), led.FiredList())}
			} else {
				runErr = fmt.Errorf("request #%d: %w [trace: %s] [faults: %v]", i, err, m.Dump(), led.FiredList())
			}
			break
		}
	}
	// end the connection
	if runErr == nil && !m.Ended {
		switch c.Ending {
		case "", "halfclose":
			if err := conn.ExpectEnd(); err != nil {
				runErr = err
			}
		case "close":
			conn.Close()
		case "rst":
			conn.Reset()
		case "truncated":
			full := hx.Req{Op: "OPEN_FILE", Path: "/plain.bin"}.Encode()
			_ = conn.Send(full[:1+c.K%(len(full)-1)])
			conn.Close()
		case "unknown":
			_ = conn.Send(hx.Req{Op: "UNKNOWN", N: 0x1233}.Encode())
			if _, closed, _ := conn.ReadToEnd(64); !closed {
				runErr = hx.Failf("ends-connection", "unknown opcode did not end the connection")
			}
		case "stalled":
			// part of a request arrives (for uploads: the command and a part of its payload), then nothing more and
			// no close: the server's idle limit has to end this
			full := hx.Req{Op: "WRITE", N: 3000, Seed: 3}.Encode()
			if c.K%2 == 1 {
				full = hx.Req{Op: "OPEN_FILE", Path: "/plain.bin"}.Encode()
			}
			_ = conn.Send(full[:1+(c.K*37)%(len(full)-1)])
			t0 := time.Now()
			data, closed, err := conn.ReadToEnd(64)
			if err != nil || !closed || len(data) > 0 {
				runErr = hx.Failf("idle-cut", "connection stalled inside a request with a short read timeout: closed=%v err=%v bytes=%d after %v", closed, err, len(data), time.Since(t0))
			}
		case "timeout":
			t0 := time.Now()
			data, closed, err := conn.ReadToEnd(64)
			if err != nil || !closed || len(data) > 0 {
				runErr = hx.Failf("idle-cut", "idle connection with a short read timeout: closed=%v err=%v bytes=%d after %v", closed, err, len(data), time.Since(t0))
			}
		}
	}
	conn.Close()
	if runErr != nil {
		tg.Close()
		return nil, runErr
	}
	// quiescence: every handle closed, the connection's goroutine gone
	deadline := time.Now().Add(3 * time.Second)
	var leaked []string
	for {
		leaked = led.Leaked()
		if len(leaked) == 0 || time.Now().After(deadline) {
			break
		}
		time.Sleep(2 * time.Millisecond)
	}
	if len(leaked) > 0 {
		tg.Close()
		return nil, hx.Failf("handles-released", "after the connection ended (%s) these handles are still open: %v [faults: %v] [trace: %s]", orDefault(c.Ending, "halfclose"), leaked, led.FiredList(), m.Dump())
	}
	// the server keeps serving: a fresh connection is answered
	led.Disarm()
	c2, err := hx.Dial(tg.Addr)
	if err != nil {
		tg.Close()
		return nil, hx.Failf("keeps-serving", "fresh connection refused: %v", err)
	}
	m2 := hx.NewModel(root, sc.AllowWrite)
	m2.MaskATime = true
	if err := m2.Step(c2, hx.Req{Op: "STAT", Path: "/small.txt"}); err != nil {
		c2.Close()
		tg.Close()
		return nil, hx.Failf("keeps-serving", "fresh connection after the faulted one: %v", err)
	}
	c2.Close()
	tg.Close()
	for time.Now().Before(deadline) && runtime.NumGoroutine() > g0+1 {
		time.Sleep(2 * time.Millisecond)
	}
	if n := runtime.NumGoroutine(); n > g0+2 {
		return nil, hx.Failf("goroutines-end", "goroutines: %d before, %d after quiescence", g0, n)
	}
	if l2 := led.Leaked(); len(l2) > 0 {
		return nil, hx.Failf("handles-released", "handles still open after the probe connection: %v", l2)
	}
	ops, reads, fired := led.Snapshot()
	return &c13Result{ops: ops, reads: reads, fired: fired, openAtFire: led.OpenAtFire, oplog: led.OpLogCopy()}, nil
}

func orDefault(s, d string) string {
	if s == "" {
		return d
	}
	return s
}

func runC13(c c13Case, st *hx.Stats) error {
	res, err := runC13Once(c, st)
	if _, isFail := err.(*hx.Fail); isFail && (c.Ending == "timeout" || c.Ending == "stalled") {
		// the server cuts this connection after 150 ms of silence: on a busy machine a request may simply have been
		// late. Nothing judged here depends on the length of that limit, so the case is decided with a 3 s limit.
		res, err = runC13With(c, nil, 3*time.Second)
	}
	if err != nil && isTimeoutErr(err) {
		res, err = runC13Once(c, nil)
		if err != nil && isTimeoutErr(err) {
			return hx.Failf("no-hang", "no complete reply, twice: %v", err)
		}
		st.Inconcl()
	}
	if err != nil {
		return err
	}
	st.Label("mode="+c.Mode, "scenario="+c.Scenario)
	if len(res.fired) > 0 {
		st.Label("fault fired")
		if res.openAtFire >= 1 {
			st.Label("fault fired while >= 1 handle was open")
			st.NT(fmt.Sprintf("%s|%s|%d|%d|%d", c.Scenario, c.Mode, c.K, c.K2, c.Errno))
		}
	}
	if c.Mode == "ending" {
		st.Label("ending=" + c.Ending)
		st.NT(fmt.Sprintf("%s|ending|%s|%d", c.Scenario, c.Ending, c.K))
	}
	st.Sample(map[string]any{"scenario": c.Scenario, "mode": c.Mode, "k": c.K, "ending": c.Ending, "fired": res.fired, "ops": res.ops})
	return nil
}

func isTimeoutErr(err error) bool {
	return err != nil && (containsStr(err.Error(), hx.ErrTimeout.Error()))
}

func containsStr(s, sub string) bool {
	for i := 0; i+len(sub) <= len(s); i++ {
		if s[i:i+len(sub)] == sub {
			return true
		}
	}
	return false
}

// TestC13Enum: per scenario, a fault at every single filesystem operation index in turn (error, then short
// read), every way of ending at every point of the history, and seeded pairs of faults.
func TestC13Enum(t *testing.T) {
	st := hx.NewStats("C13", "enum")
	st.MarkExhaustive("for each fixed scenario: an injected error at every filesystem operation index, a short read at every read index, and every ending (half-close, close, RST, truncated request, unknown opcode, read timeout) after every prefix of the history")
	errnos := []int{int(syscall.EIO), int(syscall.EACCES), int(syscall.ENOENT), int(syscall.EMFILE)}
	cases := func(yield func(c13Case) bool) {
		for _, sc := range c13Scenarios() {
			base, err := runC13Once(c13Case{Scenario: sc.Name, Mode: "baseline", K2: -1}, nil)
			if err != nil {
				// the fault-free run itself fails: report it as the case
				yield(c13Case{Scenario: sc.Name, Mode: "baseline", K2: -1})
				return
			}
			if !yield(c13Case{Scenario: sc.Name, Mode: "baseline", K2: -1}) {
				return
			}
			for k := 0; k < base.ops; k++ {
				if !yield(c13Case{Scenario: sc.Name, Mode: "fail-op", K: k, K2: -1, Errno: errnos[k%len(errnos)]}) {
					return
				}
				// a directory read that fails half-way: some entries AND an error
				if k < len(base.oplog) && strings.HasPrefix(base.oplog[k], "readdir") {
					for pn := 1; pn <= 4; pn++ {
						if !yield(c13Case{Scenario: sc.Name, Mode: "partial-list", K: k, K2: -1, Errno: int(syscall.EIO), PartN: pn}) {
							return
						}
					}
				}
			}
			for k := 0; k < base.reads; k++ {
				if !yield(c13Case{Scenario: sc.Name, Mode: "short-read", K: k, K2: -1}) {
					return
				}
				if !yield(c13Case{Scenario: sc.Name, Mode: "partial-read", K: k, K2: -1, Errno: k * 7}) {
					return
				}
				if !yield(c13Case{Scenario: sc.Name, Mode: "partial-eof", K: k, K2: -1, Errno: k * 7}) {
					return
				}
			}
			for p := 0; p <= len(sc.Reqs); p++ {
				for _, e := range []string{"halfclose", "close", "rst", "truncated", "unknown", "timeout", "stalled"} {
					if (e == "timeout" || e == "stalled") && p%3 != 0 {
						continue // each costs the timeout; every third point
					}
					if !yield(c13Case{Scenario: sc.Name, Mode: "ending", K: p, K2: -1, Ending: e}) {
						return
					}
				}
			}
			// pairs
			npairs := 40
			if hx.Thorough() {
				npairs = 600
			}
			h := hx.Seed()*7919 + uint64(len(sc.Name))
			for i := 0; i < npairs && base.ops > 2; i++ {
				h = h*6364136223846793005 + 1442695040888963407
				k1 := int(h>>33) % base.ops
				k2 := int(h>>13) % base.ops
				if !yield(c13Case{Scenario: sc.Name, Mode: "pair", K: k1, K2: k2, Errno: errnos[i%len(errnos)]}) {
					return
				}
			}
		}
	}
	hx.RunCases(t, st, cases, runC13, hx.PropOpts{WriteAhead: true})
}

// TestC13Random: generated histories (C03 generator over the C13 tree's paths) with one random fault or ending.
func TestC13Random(t *testing.T) {
	st := hx.NewStats("C13", "random")
	tree := c13Tree()
	pool := hx.PoolOf(tree)
	gen := func(t *rapid.T) c13Case {
		n := rapid.IntRange(1, 20).Draw(t, "nreq")
		var reqs []hx.Req
		for i := 0; i < n; i++ {
			r := genC03Req(t, pool, []int64{150000, 77, 0, 5000, 16384}, fmt.Sprintf("r%d", i))
			if r.Op == "UNKNOWN" {
				r = hx.Req{Op: "STAT", Path: "/plain.bin"}
			}
			if rapid.IntRange(0, 5).Draw(t, fmt.Sprintf("virt%d", i)) == 0 {
				r = hx.Req{Op: "OPEN_FILE", Path: hx.BStr(rapid.SampledFrom([]string{"/***DVD***/GAME", "/***PS3***/PS3GAME", "/PS3ISO/g.iso", "/PS3ISO/r.iso", "/k3y.iso"}).Draw(t, fmt.Sprintf("vp%d", i)))}
			}
			reqs = append(reqs, r)
		}
		c := c13Case{Scenario: "generated", Reqs: reqs, AllowWrite: rapid.Bool().Draw(t, "allow_write"), K2: -1}
		switch rapid.IntRange(0, 3).Draw(t, "mode") {
		case 0:
			c.Mode, c.K, c.Ending = "ending", rapid.IntRange(0, n).Draw(t, "prefix"), rapid.SampledFrom([]string{"halfclose", "close", "rst", "truncated", "unknown"}).Draw(t, "ending")
		case 1:
			c.Mode, c.K = "short-read", rapid.IntRange(0, 40).Draw(t, "k")
		case 2:
			if rapid.Bool().Draw(t, "partial") {
				c.Mode, c.K = rapid.SampledFrom([]string{"partial-read", "partial-eof"}).Draw(t, "partial-kind"), rapid.IntRange(0, 40).Draw(t, "k")
			} else {
				// failing directory reads hand out the entries read so far (other operations fail as usual)
				c.Mode, c.K, c.Errno, c.PartN = "partial-list", rapid.IntRange(0, 120).Draw(t, "k"), int(syscall.EIO), rapid.IntRange(1, 5).Draw(t, "part_n")
			}
		default:
			c.Mode, c.K, c.Errno = "fail-op", rapid.IntRange(0, 120).Draw(t, "k"), rapid.SampledFrom([]int{int(syscall.EIO), int(syscall.EACCES), int(syscall.ENOENT)}).Draw(t, "errno")
		}
		return c
	}
	hx.RunProp(t, st, gen, runC13, hx.PropOpts{WriteAhead: true})
}
