package props

import (
	"bytes"
	"encoding/base64"
	"encoding/binary"
	"encoding/json"
	"io"
	"os"
	"testing"
	"time"

	"github.com/spf13/afero"
	"pgregory.net/rapid"

	pfs "github.com/xakep666/ps3netsrv-go/pkg/fs"
	"github.com/xakep666/ps3netsrv-go/pkg/iprange"
	"github.com/xakep666/ps3netsrv-go/pkg/kongini"
	"github.com/xakep666/ps3netsrv-go/verif/hx"
)

// Native coverage-guided fuzz targets (thorough tier only). The semantic oracle sits inside each
// target; state is rebuilt per iteration. Targets built on rapid.MakeFuzz reuse the rapid properties,
// so the fuzzer's bytes drive the same structured generators.

var fuzzStats = hx.NewStats("FUZZ", "fuzz")

func fuzzC10(t *testing.T, data []byte) {
	rapid.MakeFuzz(func(rt *rapid.T) {
		c := genC10(rt)
		if err := hx.SafeRun(func() error { return runC10(c, fuzzStats) }); err != nil {
			rt.Fatalf("C10: %v", err)
		}
	})(t, data)
}

func fuzzC14(t *testing.T, data []byte) {
	rapid.MakeFuzz(func(rt *rapid.T) {
		c := genC14(rt)
		if err := hx.SafeRun(func() error { return runC14(c, fuzzStats) }); err != nil {
			rt.Fatalf("C14: %v", err)
		}
	})(t, data)
}

func fuzzC09(t *testing.T, data []byte) {
	rapid.MakeFuzz(func(rt *rapid.T) {
		c := genC09(rt)
		if err := hx.SafeRun(func() error { return runC09(c, fuzzStats) }); err != nil {
			rt.Fatalf("C09: %v", err)
		}
	})(t, data)
}

// fuzzSpec: raw strings into the range parser: must return a value or an error, and an accepted
// spec must contain its own bounds' midpoint consistently in 4- and 16-byte form.
func fuzzSpec(t *testing.T, data []byte) {
	s := string(data)
	r, err := iprange.ParseIPRange(s)
	var r2 iprange.IPRange
	err2 := r2.UnmarshalText(data)
	if (err == nil) != (err2 == nil) {
		t.Fatalf("ParseIPRange(%q) err=%v but UnmarshalText err=%v", s, err, err2)
	}
	if err != nil {
		return
	}
	for _, ip := range [][]byte{{127, 0, 0, 1}, {192, 0, 2, 1}, {255, 255, 255, 255}, {0, 0, 0, 0}} {
		v4 := append([]byte(nil), ip...)
		v16 := append([]byte{0, 0, 0, 0, 0, 0, 0, 0, 0, 0, 0xff, 0xff}, ip...)
		if r.Contains(v4) != r.Contains(v16) {
			t.Fatalf("spec %q: Contains(%v) differs between the 4-byte and the mapped 16-byte form", s, ip)
		}
	}
}

// fuzzSFO: arbitrary PARAM.SFO bytes through the PS3 image constructor and reads: error or image, never a panic.
func fuzzSFO(t *testing.T, data []byte) {
	mem := afero.NewMemMapFs()
	_ = mem.MkdirAll("/g/PS3_GAME", 0o755)
	_ = afero.WriteFile(mem, "/g/PS3_GAME/PARAM.SFO", data, 0o644)
	_ = afero.WriteFile(mem, "/g/EBOOT.BIN", []byte("eboot"), 0o644)
	f, err := (&pfs.FS{Fs: mem}).Open("/***PS3***/g")
	if err != nil {
		return
	}
	defer f.Close()
	st, _ := f.Stat()
	img, err := io.ReadAll(f)
	if err != nil {
		t.Fatalf("image created but unreadable: %v", err)
	}
	if int64(len(img)) != st.Size() || len(img)%2048 != 0 {
		t.Fatalf("image length %d, announced %d", len(img), st.Size())
	}
	if string(img[2048:2048+12]) != "PlayStation3" {
		t.Fatalf("sector 1 does not start with PlayStation3")
	}
}

// fuzzImage: arbitrary bytes as an image below PS3ISO with a key beside it and as a 3k3y candidate.
func fuzzImage(t *testing.T, data []byte) {
	mem := afero.NewMemMapFs()
	_ = mem.MkdirAll("/PS3ISO", 0o755)
	_ = afero.WriteFile(mem, "/PS3ISO/i.iso", data, 0o644)
	_ = afero.WriteFile(mem, "/PS3ISO/i.dkey", []byte("00112233445566778899aabbccddeeff"), 0o644)
	_ = afero.WriteFile(mem, "/k.bin", data, 0o644)
	for _, p := range []string{"/PS3ISO/i.iso", "/k.bin"} {
		f, err := (&pfs.FS{Fs: mem}).Open(p)
		if err != nil {
			continue
		}
		all, err := io.ReadAll(f)
		if err != nil || len(all) != len(data) {
			t.Fatalf("%s: view has %d bytes (err %v), file has %d", p, len(all), err, len(data))
		}
		for _, w := range [][2]int{{0xF6F, 3}, {0xF70, 256}, {2047, 2}, {len(data) - 1, 5}, {len(data) / 2, 4097}} {
			if w[0] < 0 || w[0] >= len(data) {
				continue
			}
			buf := make([]byte, w[1])
			n, _ := f.ReadAt(buf, int64(w[0]))
			want := min(w[1], len(data)-w[0])
			if n != want || !bytes.Equal(buf[:n], all[w[0]:w[0]+n]) {
				t.Fatalf("%s: ReadAt(%d,%d) = %d bytes differs from the sequential view", p, w[1], w[0], n)
			}
		}
		f.Close()
	}
}

// fuzzINI: arbitrary bytes through the INI loader.
func fuzzINI(t *testing.T, data []byte) {
	_, _ = kongini.Loader(bytes.NewReader(data))
}

// fuzzStream: arbitrary bytes as a client stream against the in-process server; the server must
// survive (a panic kills the fuzz worker) and keep serving.
var fuzzTarget *hx.Target
var fuzzRoot string

func fuzzStream(t *testing.T, data []byte) {
	if fuzzTarget == nil {
		root, err := os.MkdirTemp("", "fuzzroot")
		if err != nil {
			t.Skip(err)
		}
		if err := hx.Materialize(root, c13Tree()); err != nil {
			t.Skip(err)
		}
		tg, err := hx.StartInproc(root, hx.InprocOpts{AllowWrite: false})
		if err != nil {
			t.Skip(err)
		}
		fuzzTarget, fuzzRoot = tg, root
	}
	conn, err := hx.Dial(fuzzTarget.Addr)
	if err != nil {
		t.Fatalf("server no longer accepts: %v", err)
	}
	conn.Timeout = 3 * time.Second
	_ = conn.Send(data)
	conn.CloseWrite()
	_, _, _ = conn.ReadToEnd(8 << 20)
	conn.Close()
	if err := c04Probe(fuzzTarget.Addr); err != nil {
		t.Fatalf("after a hostile stream: %v", err)
	}
}

var fuzzTargets = map[string]func(*testing.T, []byte){
	"FuzzC10": fuzzC10, "FuzzC14": fuzzC14, "FuzzC09": fuzzC09, "FuzzSpec": fuzzSpec, "FuzzSFO": fuzzSFO, "FuzzImage": fuzzImage, "FuzzINI": fuzzINI, "FuzzStream": fuzzStream,
}

func addSeeds(f *testing.F, seeds ...[]byte) {
	for _, s := range seeds {
		f.Add(s)
	}
	f.Add([]byte{})
	f.Add(bytes.Repeat([]byte{0xff}, 64))
	f.Add(bytes.Repeat([]byte{0}, 64))
}

func hostileHeader(count uint32) []byte {
	b := make([]byte, 8192)
	binary.BigEndian.PutUint32(b, count)
	binary.BigEndian.PutUint32(b[12:], 3)
	binary.BigEndian.PutUint32(b[16:], 5)
	binary.BigEndian.PutUint32(b[20:], 7)
	return b
}

func FuzzC10(f *testing.F) { addSeeds(f); f.Fuzz(fuzzC10) }
func FuzzC14(f *testing.F) { addSeeds(f); f.Fuzz(fuzzC14) }
func FuzzC09(f *testing.F) { addSeeds(f); f.Fuzz(fuzzC09) }
func FuzzSpec(f *testing.F) {
	addSeeds(f, []byte("192.0.2.0/24"), []byte("192.0.2.1-192.0.2.9"), []byte("2001:db8::/64"), []byte("192.0.2.0/255.255.255.0"), []byte("::ffff:1.2.3.4/120"), []byte("1.2.3.4/-1"), []byte("1.2.3.4/033"))
	f.Fuzz(fuzzSpec)
}
func FuzzSFO(f *testing.F) {
	var seeds [][]byte
	for _, v := range c04SFOVariants() {
		seeds = append(seeds, v)
	}
	if b, err := os.ReadFile("/repo/pkg/fs/testdata/PARAM.SFO"); err == nil {
		seeds = append(seeds, b)
	}
	addSeeds(f, seeds...)
	f.Fuzz(fuzzSFO)
}
func FuzzImage(f *testing.F) {
	k3y := hostileHeader(2)
	copy(k3y[0xF70:], wmEnc)
	addSeeds(f, hostileHeader(2), hostileHeader(0), hostileHeader(1), hostileHeader(255), hostileHeader(256), hostileHeader(0xffffffff), hostileHeader(0x80000000), k3y, k3y[:0x1070], k3y[:0x106F])
	f.Fuzz(fuzzImage)
}
func FuzzINI(f *testing.F) {
	addSeeds(f, []byte("[server]\nroot = /x\nallow-write = true\n"), []byte("[server\n"), []byte("=\n[]\n"))
	f.Fuzz(fuzzINI)
}
func FuzzStream(f *testing.F) {
	var seeds [][]byte
	for _, sc := range c13Scenarios() {
		var b []byte
		for _, r := range sc.Reqs {
			b = append(b, r.Encode()...)
		}
		seeds = append(seeds, b)
	}
	addSeeds(f, seeds...)
	f.Fuzz(fuzzStream)
}

// TestFuzzReplay re-runs one saved fuzz crasher (VERIF_REPLAY file with unit "fuzz:<Target>").
func TestFuzzReplay(t *testing.T) {
	p := os.Getenv("VERIF_REPLAY")
	if p == "" {
		t.Skip("no replay file")
	}
	b, err := os.ReadFile(p)
	if err != nil {
		t.Fatal(err)
	}
	var f struct {
		Unit string `json:"unit"`
		Case struct {
			Data string `json:"data_b64"`
		} `json:"case"`
	}
	if err := json.Unmarshal(b, &f); err != nil {
		t.Fatal(err)
	}
	if len(f.Unit) < 6 || f.Unit[:5] != "fuzz:" {
		t.Skip("not a fuzz replay")
	}
	fn := fuzzTargets[f.Unit[5:]]
	if fn == nil {
		t.Fatalf("unknown fuzz target %q", f.Unit)
	}
	data, err := base64.StdEncoding.DecodeString(f.Case.Data)
	if err != nil {
		t.Fatal(err)
	}
	fn(t, data)
}
