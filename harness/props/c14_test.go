package props

import (
	"fmt"
	"math/big"
	"net"
	"net/netip"
	"strings"
	"testing"

	"pgregory.net/rapid"

	"github.com/xakep666/ps3netsrv-go/pkg/iprange"
	"github.com/xakep666/ps3netsrv-go/verif/hx"
)

// ---- C14: IP range specifications ---------------------------------------------
// Reference semantics on netip.Addr + big.Int in the 128-bit space where an IPv4
// address is its IPv4-mapped form.

// the nine values an octet of a contiguous netmask can have
var c14MaskOctets = []byte{0, 128, 192, 224, 240, 248, 252, 254, 255}

type c14Spec struct {
	Text  string `json:"text"`
	Class string `json:"class"`
	Valid bool   `json:"valid"`
	Lo    string `json:"lo,omitempty"` // decimal 128-bit bounds (inclusive) of the documented set
	Hi    string `json:"hi,omitempty"`
	Fam   int    `json:"fam"` // 4 or 6
	Pfx   int    `json:"pfx"`
	Host  bool   `json:"host_bits"`
}

type c14Case struct {
	Spec   c14Spec  `json:"spec"`
	Probes []string `json:"probes"` // decimal 128-bit values
	Sweep  bool     `json:"sweep"`  // exhaustive membership over the enclosing /20 (v4) or /116 (v6)
}

func addrBig(a netip.Addr) *big.Int {
	b := a.As16()
	return new(big.Int).SetBytes(b[:])
}

func bigAddr16(v *big.Int) net.IP {
	out := make(net.IP, 16)
	v.FillBytes(out)
	return out
}

var mappedBase = addrBig(netip.MustParseAddr("::ffff:0.0.0.0"))
var max128 = new(big.Int).Sub(new(big.Int).Lsh(big.NewInt(1), 128), big.NewInt(1))

func genV4(t *rapid.T, l string) netip.Addr {
	var b [4]byte
	pat := rapid.IntRange(0, 5).Draw(t, l+"-pat")
	for i := range b {
		switch pat {
		case 0:
			b[i] = 0
		case 1:
			b[i] = 255
		default:
			b[i] = rapid.Byte().Draw(t, fmt.Sprintf("%s-b%d", l, i))
		}
	}
	if pat <= 1 {
		b[3] = rapid.Byte().Draw(t, l+"-last")
	}
	return netip.AddrFrom4(b)
}

func genV6(t *rapid.T, l string) netip.Addr {
	var b [16]byte
	pat := rapid.IntRange(0, 4).Draw(t, l+"-pat")
	b[0], b[1], b[2], b[3] = 0x20, 0x01, 0x0d, 0xb8
	for i := 4; i < 16; i++ {
		switch pat {
		case 0:
			b[i] = 0
		case 1:
			b[i] = 0xff
		default:
			b[i] = rapid.Byte().Draw(t, fmt.Sprintf("%s-b%d", l, i))
		}
	}
	if pat == 3 {
		for i := 0; i < 4; i++ {
			b[i] = rapid.Byte().Draw(t, fmt.Sprintf("%s-h%d", l, i))
		}
		if b[0] == 0 && b[1] == 0 { // keep clear of ::/16 where v4-mapped and compat forms live
			b[0] = 0xfd
		}
	}
	if pat <= 1 {
		b[15] = rapid.Byte().Draw(t, l+"-last")
	}
	return netip.AddrFrom16(b)
}

func maskBits(bits, total int) *big.Int { // network mask as 'total'-bit number
	m := new(big.Int).Lsh(big.NewInt(1), uint(total))
	m.Sub(m, big.NewInt(1))
	h := new(big.Int).Lsh(big.NewInt(1), uint(total-bits))
	h.Sub(h, big.NewInt(1))
	return m.Xor(m, h)
}

func blockBounds(a netip.Addr, pfx int) (lo, hi *big.Int, host bool) {
	total := 128
	av := addrBig(a)
	base := big.NewInt(0)
	if a.Is4() {
		total = 32
		base = mappedBase
		av = new(big.Int).Sub(av, mappedBase)
	}
	mask := maskBits(pfx, total)
	netw := new(big.Int).And(av, mask)
	host = netw.Cmp(av) != 0
	span := new(big.Int).Lsh(big.NewInt(1), uint(total-pfx))
	bc := new(big.Int).Add(netw, new(big.Int).Sub(span, big.NewInt(1)))
	lo, hi = netw, bc
	if total-pfx >= 2 { // more than two addresses: network and broadcast excluded
		lo = new(big.Int).Add(netw, big.NewInt(1))
		hi = new(big.Int).Sub(bc, big.NewInt(1))
	}
	return new(big.Int).Add(lo, base), new(big.Int).Add(hi, base), host
}

func fmtV6(t *rapid.T, a netip.Addr, l string) string {
	switch rapid.IntRange(0, 3).Draw(t, l+"-fmt") {
	case 0:
		return strings.ToUpper(a.String())
	case 1:
		return a.StringExpanded()
	default:
		return a.String()
	}
}

func genC14Valid(t *rapid.T) c14Spec {
	kind := rapid.SampledFrom([]string{"single4", "single6", "range4", "range6", "cidr4", "cidr4", "cidr6", "cidr6", "mask4", "mask4", "cidr6-low", "range6-low"}).Draw(t, "kind")
	s := c14Spec{Class: kind, Valid: true}
	if kind == "cidr6-low" {
		// an IPv6 CIDR whose base lies in ::/16, where the IPv4-mapped (::ffff:a.b.c.d) and compatible forms live,
		// written in IPv6 notation: an IPv6 block like any other (for prefixes >= 96 a set of mapped IPv4 addresses)
		var b [16]byte
		switch rapid.IntRange(0, 2).Draw(t, "low-kind") {
		case 0:
			b[10], b[11] = 0xff, 0xff
		case 1:
			b[10], b[11] = 0xff, 0xfe
		}
		for i := 12; i < 16; i++ {
			b[i] = rapid.Byte().Draw(t, fmt.Sprintf("low-b%d", i))
		}
		a := netip.AddrFrom16(b)
		p := rapid.SampledFrom([]int{0, 1, 8, 24, 32, 64, 80, 95, 96, 97, 104, 120, 126, 127, 128}).Draw(t, "low-pfx")
		if rapid.Bool().Draw(t, "low-aligned") {
			pp, _ := a.Prefix(p)
			a = pp.Addr()
		}
		lo, hi, host := blockBounds(a, p)
		s.Fam, s.Pfx, s.Host = 6, p, host
		s.Lo, s.Hi = lo.String(), hi.String()
		text := a.StringExpanded() // pure hexadecimal groups
		if rapid.Bool().Draw(t, "low-dotted") && a.Is4In6() {
			text = "::ffff:" + a.Unmap().String() // the dotted IPv6 spelling of a mapped address
		}
		s.Text = fmt.Sprintf("%s/%d", text, p)
		return s
	}
	if kind == "range6-low" {
		// an IPv6 range (both bounds in IPv6 notation) in ::/16, at the borders of the IPv4-mapped block
		// ::ffff:0:0 .. ::ffff:ffff:ffff: one bound inside it, the other outside, or both inside
		below := new(big.Int).Sub(mappedBase, big.NewInt(int64(rapid.IntRange(0, 70000).Draw(t, "low-below"))))
		inside := new(big.Int).Add(mappedBase, new(big.Int).SetUint64(uint64(rapid.Uint32().Draw(t, "low-inside"))))
		above := new(big.Int).Add(mappedBase, big.NewInt(1<<32+int64(rapid.IntRange(0, 70000).Draw(t, "low-above"))))
		var lo, hi *big.Int
		switch rapid.IntRange(0, 3).Draw(t, "low-shape") {
		case 0:
			lo, hi = below, inside
		case 1:
			lo, hi = inside, above
		case 2:
			lo, hi = below, above
		default:
			lo, hi = mappedBase, inside
		}
		spell := func(v *big.Int, l string) string {
			a, _ := netip.AddrFromSlice(bigAddr16(v))
			if a.Is4In6() && rapid.Bool().Draw(t, l+"-dotted") {
				return "::ffff:" + a.Unmap().String()
			}
			return a.StringExpanded()
		}
		s.Fam = 6
		s.Lo, s.Hi = lo.String(), hi.String()
		s.Text = spell(lo, "lo") + "-" + spell(hi, "hi")
		return s
	}
	switch kind {
	case "single4":
		a := genV4(t, "a")
		s.Text, s.Fam = a.String(), 4
		s.Lo, s.Hi = addrBig(a).String(), addrBig(a).String()
	case "single6":
		a := genV6(t, "a")
		s.Text, s.Fam = fmtV6(t, a, "a"), 6
		s.Lo, s.Hi = addrBig(a).String(), addrBig(a).String()
	case "range4", "range6":
		var a, b netip.Addr
		if kind == "range4" {
			a = genV4(t, "a")
			s.Fam = 4
		} else {
			a = genV6(t, "a")
			s.Fam = 6
		}
		// width classes: 0, 1, small, anything
		av := addrBig(a)
		var w *big.Int
		switch rapid.IntRange(0, 3).Draw(t, "width") {
		case 0:
			w = big.NewInt(0)
		case 1:
			w = big.NewInt(1)
		case 2:
			w = big.NewInt(int64(rapid.IntRange(2, 70000).Draw(t, "w")))
		default:
			w = new(big.Int).SetUint64(rapid.Uint64().Draw(t, "w64"))
			if kind == "range4" {
				w.Mod(w, big.NewInt(1<<32))
			}
		}
		bv := new(big.Int).Add(av, w)
		top := max128
		if kind == "range4" {
			top = new(big.Int).Add(mappedBase, big.NewInt(1<<32-1))
		}
		if bv.Cmp(top) > 0 {
			bv = top
		}
		bb, _ := netip.AddrFromSlice(bigAddr16(bv))
		b = bb
		if kind == "range4" {
			b = bb.Unmap()
			s.Text = a.String() + "-" + b.String()
		} else {
			s.Text = fmtV6(t, a, "a") + "-" + fmtV6(t, b, "b")
		}
		s.Lo, s.Hi = av.String(), bv.String()
	case "cidr4", "mask4":
		a := genV4(t, "a")
		p := rapid.IntRange(0, 32).Draw(t, "pfx")
		if rapid.IntRange(0, 2).Draw(t, "aligned") == 0 { // aligned base
			pp, _ := a.Prefix(p)
			a = pp.Addr()
		}
		lo, hi, host := blockBounds(a, p)
		s.Fam, s.Pfx, s.Host = 4, p, host
		s.Lo, s.Hi = lo.String(), hi.String()
		if kind == "cidr4" {
			s.Text = fmt.Sprintf("%s/%d", a, p)
		} else {
			m := net.CIDRMask(p, 32)
			s.Text = fmt.Sprintf("%s/%s", a, net.IP(m).String())
		}
	case "cidr6":
		a := genV6(t, "a")
		p := rapid.IntRange(0, 128).Draw(t, "pfx")
		if rapid.IntRange(0, 2).Draw(t, "aligned") == 0 {
			pp, _ := a.Prefix(p)
			a = pp.Addr()
		}
		lo, hi, host := blockBounds(a, p)
		s.Fam, s.Pfx, s.Host = 6, p, host
		s.Lo, s.Hi = lo.String(), hi.String()
		s.Text = fmt.Sprintf("%s/%d", fmtV6(t, a, "a"), p)
	}
	return s
}

func genC14Invalid(t *rapid.T) c14Spec {
	kind := rapid.SampledFrom([]string{"bad-addr", "bad-addr-in-range", "bad-addr-in-cidr", "noncontig-mask", "prefix-out-of-range", "prefix-empty", "prefix-negative",
		"reversed", "mixed-family", "v6-with-mask", "range-missing-end", "garbage", "prefix-signed", "mask-in-v6-notation"}).Draw(t, "kind")
	s := c14Spec{Class: "invalid:" + kind}
	a4, a6 := genV4(t, "a4"), genV6(t, "a6")
	bad4 := rapid.SampledFrom([]string{"192.0.2.", "192.0.2.256", "1.2.3", "1.2.3.4.5", "1..2.3", "a.b.c.d", "", "1.2.3.4 "}).Draw(t, "bad4")
	// (an address with a zone - "fe80::1%eth0" - is not an address of the documented grammar: other parsers take it and
	// drop the zone, which would admit that address from every interface)
	bad6 := rapid.SampledFrom([]string{"2001:db8", "2001:db8:::1", "g::1", "1:2:3:4:5:6:7:8:9", "::1::", "fe80::1%eth0", "fe80::%1", "::ffff:192.0.2.1%lo", "::1%", "2001:db8::1%25eth0"}).Draw(t, "bad6")
	switch kind {
	case "bad-addr":
		s.Text = rapid.SampledFrom([]string{bad4, bad6}).Draw(t, "pick")
		if s.Text == "" {
			s.Text = "x"
		}
	case "bad-addr-in-range":
		if rapid.Bool().Draw(t, "side") {
			s.Text = bad4 + "-" + a4.String()
		} else {
			s.Text = a6.String() + "-" + bad6
		}
	case "bad-addr-in-cidr":
		if rapid.Bool().Draw(t, "fam") {
			s.Text = bad4 + "/24"
		} else {
			s.Text = bad6 + "/64"
		}
	case "noncontig-mask":
		m := [4]byte{}
		isContig := func(m [4]byte) bool { ones, bits := net.IPMask(m[:]).Size(); return !(ones == 0 && bits == 0) }
		switch rapid.IntRange(0, 3).Draw(t, "maskshape") {
		case 0:
			// every octet looks like a mask octet (ones, then zeros) - the four of them together do not
			for i := range m {
				m[i] = rapid.SampledFrom(c14MaskOctets).Draw(t, fmt.Sprintf("oct%d", i))
			}
		case 1:
			// a contiguous mask with one bit flipped
			v := uint32(0)
			if p := rapid.IntRange(0, 32).Draw(t, "mp"); p > 0 {
				v = ^uint32(0) << (32 - p)
			}
			v ^= 1 << rapid.IntRange(0, 31).Draw(t, "flip")
			m = [4]byte{byte(v >> 24), byte(v >> 16), byte(v >> 8), byte(v)}
		case 2:
			// the complement of a mask (wildcard form), a mask with its bytes reversed
			p := rapid.IntRange(1, 31).Draw(t, "mp")
			v := ^uint32(0) << (32 - p)
			if rapid.Bool().Draw(t, "wild") {
				v = ^v
				m = [4]byte{byte(v >> 24), byte(v >> 16), byte(v >> 8), byte(v)}
			} else {
				m = [4]byte{byte(v), byte(v >> 8), byte(v >> 16), byte(v >> 24)}
			}
		default:
			v := rapid.Uint32().Draw(t, "mask")
			m = [4]byte{byte(v >> 24), byte(v >> 16), byte(v >> 8), byte(v)}
		}
		if isContig(m) {
			m[1], m[3] = m[1]^1, m[3]|1 // force a hole
			if isContig(m) {
				m = [4]byte{255, 0, 255, 0}
			}
		}
		s.Text = fmt.Sprintf("%s/%d.%d.%d.%d", a4, m[0], m[1], m[2], m[3])
	case "prefix-out-of-range":
		if rapid.Bool().Draw(t, "fam") {
			s.Text = fmt.Sprintf("%s/%d", a4, rapid.SampledFrom([]int{33, 34, 64, 99, 128, 129, 1000}).Draw(t, "p"))
		} else {
			s.Text = fmt.Sprintf("%s/%d", a6, rapid.SampledFrom([]int{129, 130, 255, 256, 999}).Draw(t, "p"))
		}
	case "prefix-empty":
		s.Text = rapid.SampledFrom([]string{a4.String() + "/", a6.String() + "/"}).Draw(t, "pick")
	case "prefix-negative":
		s.Text = rapid.SampledFrom([]string{a4.String() + "/-1", a6.String() + "/-1", a4.String() + "/-24"}).Draw(t, "pick")
	case "reversed":
		if rapid.Bool().Draw(t, "fam") {
			b := a4.Next()
			if !b.IsValid() {
				b, a4 = a4, a4.Prev()
			}
			s.Text = b.String() + "-" + a4.String()
		} else {
			b := a6.Next()
			if !b.IsValid() {
				b, a6 = a6, a6.Prev()
			}
			s.Text = b.String() + "-" + a6.String()
		}
	case "mixed-family":
		switch rapid.IntRange(0, 3).Draw(t, "order") {
		case 0:
			s.Text = a4.String() + "-" + a6.String()
		case 1:
			s.Text = a6.String() + "-" + a4.String()
		case 2:
			// an IPv4 address and (the IPv6 spelling of) a mapped one: still one bound per family
			b := a4.Next()
			if !b.IsValid() {
				b = a4
			}
			s.Text = "::ffff:" + a4.String() + "-" + b.String()
		default:
			b := a4.Next()
			if !b.IsValid() {
				b = a4
			}
			s.Text = a4.String() + "-::ffff:" + b.String()
		}
	case "v6-with-mask":
		s.Text = a6.String() + "/" + net.IP(net.CIDRMask(rapid.IntRange(1, 31).Draw(t, "p"), 32)).String()
	case "prefix-signed":
		// a prefix length is a number 0..32 / 0..128, not a signed number: "/-0" must not mean "/0"
		sign := rapid.SampledFrom([]string{"-0", "-00", "+0", "+24", "+32", "-", "+"}).Draw(t, "sign")
		s.Text = rapid.SampledFrom([]string{a4.String(), a6.String()}).Draw(t, "pick") + "/" + sign
	case "mask-in-v6-notation":
		// the netmask form is "IPv4 with subnet mask": both parts in IPv4 notation
		m := net.IP(net.CIDRMask(rapid.IntRange(0, 32).Draw(t, "p"), 32)).String()
		if rapid.Bool().Draw(t, "which") {
			s.Text = a4.String() + "/::ffff:" + m
		} else {
			s.Text = "::ffff:" + a4.String() + "/" + m
		}
	case "range-missing-end":
		s.Text = rapid.SampledFrom([]string{a4.String() + "-", a6.String() + "-"}).Draw(t, "pick")
	default:
		s.Text = rapid.SampledFrom([]string{"/", "-", "/24", "-1.2.3.4", "hello", "1.2.3.4/abc", "1.2.3.4/2x", "::1/12x"}).Draw(t, "pick")
	}
	return s
}

func c14Probes(t *rapid.T, s c14Spec) []string {
	lo, _ := new(big.Int).SetString(s.Lo, 10)
	hi, _ := new(big.Int).SetString(s.Hi, 10)
	var out []string
	add := func(v *big.Int) {
		if v.Sign() >= 0 && v.Cmp(max128) <= 0 {
			out = append(out, v.String())
		}
	}
	one, two := big.NewInt(1), big.NewInt(2)
	for _, b := range []*big.Int{lo, hi} {
		add(new(big.Int).Sub(b, two))
		add(new(big.Int).Sub(b, one))
		add(b)
		add(new(big.Int).Add(b, one))
		add(new(big.Int).Add(b, two))
	}
	// interior
	if hi.Cmp(lo) > 0 {
		w := new(big.Int).Sub(hi, lo)
		f := new(big.Int).SetUint64(rapid.Uint64().Draw(t, "interior"))
		f.Mod(f, new(big.Int).Add(w, one))
		add(new(big.Int).Add(lo, f))
	}
	// cross-family probes: the IPv4 address whose 4 bytes equal the low 32 bits of a border (and +-1),
	// and for IPv4 specs the IPv6 address 2001:db8::<same 4 bytes>: a membership test that looks at a
	// suffix or prefix of the 16-byte form only is wrong exactly there
	low32 := new(big.Int).SetUint64(0xffffffff)
	for _, b := range []*big.Int{lo, hi} {
		tail := new(big.Int).And(b, low32)
		for _, d := range []int64{-1, 0, 1} {
			tv := new(big.Int).Add(tail, big.NewInt(d))
			if tv.Sign() < 0 || tv.Cmp(low32) > 0 {
				continue
			}
			if s.Fam == 6 {
				add(new(big.Int).Add(mappedBase, tv))
			} else {
				add(new(big.Int).Add(addrBig(netip.MustParseAddr("2001:db8::")), tv))
				add(tv) // ::a.b.c.d (IPv4-compatible form, not mapped)
			}
		}
	}
	if s.Fam == 6 {
		add(new(big.Int).Add(mappedBase, new(big.Int).SetUint64(uint64(rapid.Uint32().Draw(t, "v4probe")))))
	}
	// exterior / random
	for i := 0; i < 3; i++ {
		var b [16]byte
		if s.Fam == 4 {
			copy(b[:], bigAddr16(mappedBase))
			for j := 12; j < 16; j++ {
				b[j] = rapid.Byte().Draw(t, fmt.Sprintf("ext%d-%d", i, j))
			}
		} else {
			for j := range b {
				b[j] = rapid.Byte().Draw(t, fmt.Sprintf("ext%d-%d", i, j))
			}
		}
		add(new(big.Int).SetBytes(b[:]))
	}
	return out
}

func genC14(t *rapid.T) c14Case {
	if rapid.IntRange(0, 9).Draw(t, "validity") < 7 {
		s := genC14Valid(t)
		c := c14Case{Spec: s, Probes: c14Probes(t, s)}
		if (s.Class == "cidr4" || s.Class == "mask4") && s.Pfx >= 20 || s.Class == "cidr6" && s.Pfx >= 116 {
			c.Sweep = rapid.IntRange(0, 7).Draw(t, "sweep") == 0
		}
		return c
	}
	return c14Case{Spec: genC14Invalid(t)}
}

func c14Contains(r *iprange.IPRange, v *big.Int, s c14Spec, what string) error {
	lo, _ := new(big.Int).SetString(s.Lo, 10)
	hi, _ := new(big.Int).SetString(s.Hi, 10)
	want := v.Cmp(lo) >= 0 && v.Cmp(hi) <= 0
	ip16 := bigAddr16(v)
	if got := r.Contains(ip16); got != want {
		return hx.Failf("membership", "%s: spec %q Contains(%s as 16 bytes) = %v, documented set says %v", what, s.Text, ip16, got, want)
	}
	if ip4 := ip16.To4(); ip4 != nil {
		ip4 = append(net.IP(nil), ip4...)
		if got := r.Contains(ip4); got != want {
			return hx.Failf("v4-mapped-alike", "%s: spec %q Contains(%s as 4 bytes) = %v but as 16 bytes = %v", what, s.Text, ip4, got, want)
		}
	}
	return nil
}

var c14SuitePrefixes = map[string]bool{"4/0": true, "4/24": true, "4/30": true, "4/31": true, "4/32": true, "6/0": true, "6/64": true, "6/126": true, "6/127": true, "6/128": true}

func runC14(c c14Case, st *hx.Stats) error {
	s := c.Spec
	st.Label("class=" + s.Class)
	r, err := iprange.ParseIPRange(s.Text)
	var r2 iprange.IPRange
	err2 := r2.UnmarshalText([]byte(s.Text))
	if (err == nil) != (err2 == nil) {
		return hx.Failf("unmarshal-agrees", "spec %q: ParseIPRange err=%v, UnmarshalText err=%v", s.Text, err, err2)
	}
	if !s.Valid {
		st.NT("invalid|" + s.Text)
		st.Sample(map[string]any{"spec": s.Text, "class": s.Class})
		if err == nil {
			return hx.Failf("rejects-invalid", "spec %q (%s) accepted as %v", s.Text, s.Class, r)
		}
		return nil
	}
	if err != nil {
		return hx.Failf("accepts-valid", "spec %q (%s) of the documented grammar rejected: %v", s.Text, s.Class, err)
	}
	lo, _ := new(big.Int).SetString(s.Lo, 10)
	hi, _ := new(big.Int).SetString(s.Hi, 10)
	isBlock := strings.HasPrefix(s.Class, "cidr") || strings.HasPrefix(s.Class, "mask")
	for _, ps := range c.Probes {
		v, _ := new(big.Int).SetString(ps, 10)
		near := new(big.Int).Abs(new(big.Int).Sub(v, lo)).Cmp(big.NewInt(1)) <= 0 || new(big.Int).Abs(new(big.Int).Sub(v, hi)).Cmp(big.NewInt(1)) <= 0
		if near || s.Host || (isBlock && !c14SuitePrefixes[fmt.Sprintf("%d/%d", s.Fam, s.Pfx)]) {
			st.NT(s.Text + "|" + ps)
		}
		if near {
			st.Label("probe within 1 of a border")
		}
		if isV4 := v.Cmp(mappedBase) >= 0 && v.Cmp(new(big.Int).Add(mappedBase, big.NewInt(1<<32-1))) <= 0; isV4 != (s.Fam == 4) {
			st.Label("probe of the other address family")
		}
		if err := c14Contains(r, v, s, "probe"); err != nil {
			return err
		}
		if err := c14Contains(&r2, v, s, "probe via UnmarshalText"); err != nil {
			return err
		}
	}
	if s.Host {
		st.Label("base address with host bits set")
	}
	if c.Sweep {
		// all addresses of the enclosing 4096-address block
		st.Label("exhaustive sweep of the enclosing 4096-address block")
		start := new(big.Int).Rsh(lo, 12)
		start.Lsh(start, 12)
		for i := int64(-2); i < 4096+2; i++ {
			v := new(big.Int).Add(start, big.NewInt(i))
			if v.Sign() < 0 || v.Cmp(max128) > 0 {
				continue
			}
			if err := c14Contains(r, v, s, "sweep"); err != nil {
				return err
			}
		}
		st.EvalN(4096)
	}
	st.Sample(map[string]any{"spec": s.Text, "class": s.Class, "probes": len(c.Probes), "sweep": c.Sweep})
	return nil
}

func TestC14Random(t *testing.T) {
	st := hx.NewStats("C14", "random")
	hx.RunProp(t, st, genC14, runC14, hx.PropOpts{})
}

// TestC14Prefixes enumerates every prefix length (and every contiguous mask) with
// aligned and unaligned bases, probing both borders +-2.
func TestC14Prefixes(t *testing.T) {
	st := hx.NewStats("C14", "prefixes")
	st.MarkExhaustive("every prefix length 0..32 (CIDR and netmask form) and 0..128, aligned and host-bits-set base, borders +-2")
	st.MarkExhaustive("every IPv4 netmask whose four octets are each ones-then-zeros (9^4) and every contiguous mask with one bit flipped: refused unless contiguous")
	cases := func(yield func(c14Case) bool) {
		bases4 := []string{"192.0.2.77", "10.255.255.255", "0.0.0.0", "255.255.255.255", "127.0.0.1"}
		bases6 := []string{"2001:db8::1:2:3", "2001:db8:ffff:ffff:ffff:ffff:ffff:ffff", "fd00::", "2001:db8::"}
		mk := func(a netip.Addr, p int, class string) c14Case {
			lo, hi, host := blockBounds(a, p)
			s := c14Spec{Class: class, Valid: true, Lo: lo.String(), Hi: hi.String(), Pfx: p, Host: host, Fam: 6}
			if a.Is4() {
				s.Fam = 4
			}
			switch class {
			case "mask4":
				s.Text = fmt.Sprintf("%s/%s", a, net.IP(net.CIDRMask(p, 32)).String())
			default:
				s.Text = fmt.Sprintf("%s/%d", a, p)
			}
			var probes []string
			for _, b := range []*big.Int{lo, hi} {
				for d := int64(-2); d <= 2; d++ {
					v := new(big.Int).Add(b, big.NewInt(d))
					if v.Sign() >= 0 && v.Cmp(max128) <= 0 {
						probes = append(probes, v.String())
					}
				}
			}
			return c14Case{Spec: s, Probes: probes, Sweep: p >= 24 && a.Is4()}
		}
		for _, b := range bases4 {
			a := netip.MustParseAddr(b)
			for p := 0; p <= 32; p++ {
				for _, class := range []string{"cidr4", "mask4"} {
					if !yield(mk(a, p, class)) {
						return
					}
					pp, _ := a.Prefix(p)
					if !yield(mk(pp.Addr(), p, class)) {
						return
					}
				}
			}
		}
		// every IPv4 mask made of octets that each look like a mask octet (9^4), and every contiguous mask with one bit
		// flipped: unless the whole is contiguous (those were enumerated above) the specification must be refused
		seenMask := map[[4]byte]bool{}
		bad := func(m [4]byte) (c14Case, bool) {
			if ones, bits := net.IPMask(m[:]).Size(); !(ones == 0 && bits == 0) || seenMask[m] {
				return c14Case{}, false
			}
			seenMask[m] = true
			return c14Case{Spec: c14Spec{Class: "noncontig-mask", Fam: 4, Text: fmt.Sprintf("192.0.2.77/%d.%d.%d.%d", m[0], m[1], m[2], m[3])}}, true
		}
		for _, o0 := range c14MaskOctets {
			for _, o1 := range c14MaskOctets {
				for _, o2 := range c14MaskOctets {
					for _, o3 := range c14MaskOctets {
						if c, ok := bad([4]byte{o0, o1, o2, o3}); ok && !yield(c) {
							return
						}
					}
				}
			}
		}
		for p := 0; p <= 32; p++ {
			for f := 0; f < 32; f++ {
				v := uint32(0)
				if p > 0 {
					v = ^uint32(0) << (32 - p)
				}
				v ^= 1 << f
				if c, ok := bad([4]byte{byte(v >> 24), byte(v >> 16), byte(v >> 8), byte(v)}); ok && !yield(c) {
					return
				}
			}
		}
		for _, b := range bases6 {
			a := netip.MustParseAddr(b)
			for p := 0; p <= 128; p++ {
				if !yield(mk(a, p, "cidr6")) {
					return
				}
				pp, _ := a.Prefix(p)
				if !yield(mk(pp.Addr(), p, "cidr6")) {
					return
				}
			}
		}
	}
	hx.RunCases(t, st, cases, runC14, hx.PropOpts{})
}
