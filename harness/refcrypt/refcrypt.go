// Package refcrypt is the reference decryptor for PS3 disc images (redump / 3k3y):
// crypto/aes + crypto/cipher only, written from the public format description
// (psdevwiki "Bluray disc - Encryption"), independent of pkg/fs.
package refcrypt

import (
	"crypto/aes"
	"crypto/cipher"
	"encoding/binary"
	"fmt"
)

const Sector = 2048

// Derivation constants of the disc key ("data1") -> image key step.
var (
	derivKey = [16]byte{0x38, 0x0b, 0xcf, 0x0b, 0x53, 0x45, 0x5b, 0x3c, 0x78, 0x17, 0xab, 0x4f, 0xa3, 0xba, 0x90, 0xed}
	derivIV  = [16]byte{0x69, 0x47, 0x47, 0x72, 0xaf, 0x6f, 0xda, 0xb3, 0x42, 0x74, 0x3a, 0xef, 0xaa, 0x18, 0x62, 0x87}
)

// ImageKey derives the key that decrypts sectors from the 16-byte disc key.
func ImageKey(disc []byte) ([]byte, error) {
	if len(disc) != 16 {
		return nil, fmt.Errorf("disc key must be 16 bytes")
	}
	c, err := aes.NewCipher(derivKey[:])
	if err != nil {
		return nil, err
	}
	out := make([]byte, 16)
	cipher.NewCBCEncrypter(c, derivIV[:]).CryptBlocks(out, disc)
	return out, nil
}

// Region is a plain (unencrypted) region of the table: sectors Start..End.
type Region struct{ Start, End uint32 }

// Table is a parsed region table.
type Table struct {
	Plain []Region
	Bytes int // size of the table in the image: 8 + 8*count
}

// EncodeTable renders a region table (big-endian count, pad, pairs).
func EncodeTable(plain []Region) []byte {
	b := make([]byte, 8+8*len(plain))
	binary.BigEndian.PutUint32(b[0:], uint32(len(plain)))
	for i, r := range plain {
		binary.BigEndian.PutUint32(b[8+8*i:], r.Start)
		binary.BigEndian.PutUint32(b[12+8*i:], r.End)
	}
	return b
}

// ValidTable: the documented sanity rules (>= 2 plain regions, first starts at 0,
// every end > start, borders increase monotonically).
func ValidTable(plain []Region) bool {
	if len(plain) < 2 || plain[0].Start != 0 {
		return false
	}
	var prevEnd uint32
	for _, r := range plain {
		if r.End <= r.Start || r.Start < prevEnd {
			return false
		}
		prevEnd = r.End
	}
	return true
}

// Encrypted reports whether a sector lies in an encrypted region: strictly between
// two consecutive plain regions. endInclusive selects how the table's End is read:
// true = End is the last plain sector (gap = End+1 .. nextStart-1),
// false = End is the first sector after the plain region (gap = End .. nextStart-1).
func (t Table) Encrypted(sector uint32, endInclusive bool) bool {
	for i := 1; i < len(t.Plain); i++ {
		lo := t.Plain[i-1].End
		if endInclusive {
			lo++
		}
		hi := t.Plain[i].Start
		if sector >= lo && sector < hi {
			return true
		}
	}
	return false
}

// Decryptor holds the image key.
type Decryptor struct {
	blk cipher.Block
}

func NewDecryptor(disc []byte) (*Decryptor, error) {
	k, err := ImageKey(disc)
	if err != nil {
		return nil, err
	}
	b, err := aes.NewCipher(k)
	if err != nil {
		return nil, err
	}
	return &Decryptor{blk: b}, nil
}

// DecryptSector decrypts one 2048-byte sector in place: AES-128-CBC, IV = sector number in the last 4 bytes.
func (d *Decryptor) DecryptSector(sector uint32, data []byte) {
	var iv [16]byte
	binary.BigEndian.PutUint32(iv[12:], sector)
	cipher.NewCBCDecrypter(d.blk, iv[:]).CryptBlocks(data, data)
}

// EncryptSector is the inverse (used to build test images whose plaintext is known).
func (d *Decryptor) EncryptSector(sector uint32, data []byte) {
	var iv [16]byte
	binary.BigEndian.PutUint32(iv[12:], sector)
	cipher.NewCBCEncrypter(d.blk, iv[:]).CryptBlocks(data, data)
}

// Plaintext returns the reference view of the stored image bytes: plain regions untouched, every complete
// sector of an encrypted region decrypted, table bytes zeroed iff clearTable.
func Plaintext(stored []byte, disc []byte, t Table, clearTable, endInclusive bool) ([]byte, error) {
	d, err := NewDecryptor(disc)
	if err != nil {
		return nil, err
	}
	out := append([]byte(nil), stored...)
	for s := 0; (s+1)*Sector <= len(out); s++ {
		if t.Encrypted(uint32(s), endInclusive) {
			d.DecryptSector(uint32(s), out[s*Sector:(s+1)*Sector])
		}
	}
	if clearTable {
		for i := 0; i < t.Bytes && i < len(out); i++ {
			out[i] = 0
		}
	}
	return out, nil
}
