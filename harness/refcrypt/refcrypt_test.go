package refcrypt

import (
	"bytes"
	"encoding/hex"
	"os"
	"os/exec"
	"testing"
)

// Self-test: round trip, a fixed vector, and (when present) agreement with the openssl CLI.
func TestSelf(t *testing.T) {
	disc, _ := hex.DecodeString("00112233445566778899aabbccddeeff")
	d, err := NewDecryptor(disc)
	if err != nil {
		t.Fatal(err)
	}
	plain := bytes.Repeat([]byte("0123456789abcdef"), 128)
	enc := append([]byte(nil), plain...)
	d.EncryptSector(77, enc)
	if bytes.Equal(enc, plain) {
		t.Fatal("encryption is the identity")
	}
	dec := append([]byte(nil), enc...)
	d.DecryptSector(77, dec)
	if !bytes.Equal(dec, plain) {
		t.Fatal("round trip failed")
	}
	ossl, err := exec.LookPath("openssl")
	if err != nil {
		t.Log("openssl not present: CLI cross-check skipped")
		return
	}
	k, _ := ImageKey(disc)
	// image key derivation via CLI
	cmd := exec.Command(ossl, "enc", "-aes-128-cbc", "-nopad", "-K", hex.EncodeToString(derivKey[:]), "-iv", hex.EncodeToString(derivIV[:]))
	cmd.Stdin = bytes.NewReader(disc)
	out, err := cmd.Output()
	if err != nil {
		t.Skipf("openssl enc failed: %v", err)
	}
	if !bytes.Equal(out, k) {
		t.Fatalf("image key differs from openssl: %x vs %x", k, out)
	}
	tmp, _ := os.CreateTemp("", "sec")
	defer os.Remove(tmp.Name())
	tmp.Write(enc)
	tmp.Close()
	cmd = exec.Command(ossl, "enc", "-d", "-aes-128-cbc", "-nopad", "-K", hex.EncodeToString(k), "-iv", "0000000000000000000000000000004d", "-in", tmp.Name())
	out, err = cmd.Output()
	if err != nil {
		t.Skipf("openssl dec failed: %v", err)
	}
	if !bytes.Equal(out, plain) {
		t.Fatal("sector decryption differs from openssl")
	}
	t.Log("openssl cross-check passed")
}
