package hx

import (
	"errors"
	"fmt"
	"io"
	"io/fs"
	"os"
	"path"
	"sort"
	"strings"
	"sync"
	"syscall"
	"time"

	"github.com/spf13/afero"
)

// ---- PermFs: seeded permutation of directory listings ------------------------------

type PermFs struct {
	afero.Fs
	Seed uint64
}

func (p *PermFs) Open(name string) (afero.File, error) {
	f, err := p.Fs.Open(name)
	if err != nil {
		return nil, err
	}
	return &permFile{File: f, seed: p.Seed}, nil
}

func (p *PermFs) OpenFile(name string, flag int, perm os.FileMode) (afero.File, error) {
	f, err := p.Fs.OpenFile(name, flag, perm)
	if err != nil {
		return nil, err
	}
	return &permFile{File: f, seed: p.Seed}, nil
}

type permFile struct {
	afero.File
	seed uint64
}

func permute[T any](xs []T, seed uint64, key func(T) string) {
	type kv struct {
		k uint64
		v T
	}
	tmp := make([]kv, len(xs))
	for i, x := range xs {
		h := seed
		for _, c := range []byte(key(x)) {
			h = splitmix(h ^ uint64(c))
		}
		tmp[i] = kv{h, x}
	}
	sort.SliceStable(tmp, func(i, j int) bool { return tmp[i].k < tmp[j].k })
	for i := range tmp {
		xs[i] = tmp[i].v
	}
}

func (f *permFile) Readdirnames(n int) ([]string, error) {
	names, err := f.File.Readdirnames(n)
	if n <= 0 {
		permute(names, f.seed, func(s string) string { return s })
	}
	return names, err
}

func (f *permFile) Readdir(n int) ([]os.FileInfo, error) {
	fis, err := f.File.Readdir(n)
	if n <= 0 {
		permute(fis, f.seed, func(fi os.FileInfo) string { return fi.Name() })
	}
	return fis, err
}

// ---- SynthFs: read-only tree whose file bytes are a PRF (giant files for free) -----

type SynthFs struct {
	Root *Node
	MT   time.Time
}

func NewSynthFs(root *Node) *SynthFs { return &SynthFs{Root: root, MT: time.Unix(1_600_000_000, 0)} }

func (s *SynthFs) find(name string) (*Node, error) {
	clean := strings.TrimPrefix(path.Clean("/"+strings.ReplaceAll(name, "\\", "/")), "/")
	n := s.Root.Find(clean)
	if n == nil {
		return nil, &os.PathError{Op: "open", Path: name, Err: syscall.ENOENT}
	}
	return n, nil
}

type synthInfo struct {
	n  *Node
	mt time.Time
}

func (i synthInfo) Name() string {
	if i.n.Name == "" {
		return "/"
	}
	return i.n.Name
}
func (i synthInfo) Size() int64 {
	if i.n.Kind == "dir" {
		return 4096
	}
	return i.n.Size
}
func (i synthInfo) Mode() fs.FileMode {
	if i.n.Kind == "dir" {
		return fs.ModeDir | 0o755
	}
	return 0o644
}
func (i synthInfo) ModTime() time.Time {
	if i.n.MTime != 0 {
		return time.Unix(i.n.MTime, 0)
	}
	return i.mt
}
func (i synthInfo) IsDir() bool { return i.n.Kind == "dir" }
func (i synthInfo) Sys() any    { return nil }

func (s *SynthFs) Name() string { return "synthfs" }
func (s *SynthFs) Open(name string) (afero.File, error) {
	n, err := s.find(name)
	if err != nil {
		return nil, err
	}
	return &synthFile{fs: s, n: n, name: name}, nil
}
func (s *SynthFs) OpenFile(name string, flag int, perm os.FileMode) (afero.File, error) {
	if flag&(os.O_WRONLY|os.O_RDWR|os.O_CREATE|os.O_TRUNC|os.O_APPEND) != 0 {
		return nil, syscall.EROFS
	}
	return s.Open(name)
}
func (s *SynthFs) Stat(name string) (os.FileInfo, error) {
	n, err := s.find(name)
	if err != nil {
		return nil, err
	}
	return synthInfo{n, s.MT}, nil
}
func (s *SynthFs) Create(string) (afero.File, error)          { return nil, syscall.EROFS }
func (s *SynthFs) Mkdir(string, os.FileMode) error            { return syscall.EROFS }
func (s *SynthFs) MkdirAll(string, os.FileMode) error         { return syscall.EROFS }
func (s *SynthFs) Remove(string) error                        { return syscall.EROFS }
func (s *SynthFs) RemoveAll(string) error                     { return syscall.EROFS }
func (s *SynthFs) Rename(string, string) error                { return syscall.EROFS }
func (s *SynthFs) Chmod(string, os.FileMode) error            { return syscall.EROFS }
func (s *SynthFs) Chown(string, int, int) error               { return syscall.EROFS }
func (s *SynthFs) Chtimes(string, time.Time, time.Time) error { return syscall.EROFS }

type synthFile struct {
	fs     *SynthFs
	n      *Node
	name   string
	off    int64
	dirPos int
	closed bool
}

func (f *synthFile) Close() error { f.closed = true; return nil }
func (f *synthFile) Name() string { return f.name }
func (f *synthFile) Read(p []byte) (int, error) {
	if f.n.Kind == "dir" {
		return 0, syscall.EISDIR
	}
	n, err := f.ReadAt(p, f.off)
	f.off += int64(n)
	if err == io.EOF && n > 0 {
		err = nil
	}
	return n, err
}
func (f *synthFile) ReadAt(p []byte, off int64) (int, error) {
	if f.n.Kind == "dir" {
		return 0, syscall.EISDIR
	}
	if off >= f.n.Size {
		return 0, io.EOF
	}
	b := f.n.Content(off, len(p))
	copy(p, b)
	if len(b) < len(p) {
		return len(b), io.EOF
	}
	return len(b), nil
}
func (f *synthFile) Seek(offset int64, whence int) (int64, error) {
	switch whence {
	case io.SeekCurrent:
		offset += f.off
	case io.SeekEnd:
		offset += f.n.Size
	}
	if offset < 0 {
		return 0, syscall.EINVAL
	}
	f.off = offset
	return offset, nil
}
func (f *synthFile) Write([]byte) (int, error)          { return 0, syscall.EROFS }
func (f *synthFile) WriteAt([]byte, int64) (int, error) { return 0, syscall.EROFS }
func (f *synthFile) WriteString(string) (int, error)    { return 0, syscall.EROFS }
func (f *synthFile) Truncate(int64) error               { return syscall.EROFS }
func (f *synthFile) Sync() error                        { return nil }
func (f *synthFile) Stat() (os.FileInfo, error)         { return synthInfo{f.n, f.fs.MT}, nil }
func (f *synthFile) Readdir(count int) ([]os.FileInfo, error) {
	if f.n.Kind != "dir" {
		return nil, syscall.ENOTDIR
	}
	var out []os.FileInfo
	for f.dirPos < len(f.n.Children) && (count <= 0 || len(out) < count) {
		out = append(out, synthInfo{f.n.Children[f.dirPos], f.fs.MT})
		f.dirPos++
	}
	if count > 0 && len(out) == 0 {
		return nil, io.EOF
	}
	return out, nil
}
func (f *synthFile) Readdirnames(n int) ([]string, error) {
	fis, err := f.Readdir(n)
	var out []string
	for _, fi := range fis {
		out = append(out, fi.Name())
	}
	return out, err
}

// ---- LedgerFs / FaultFs: every handle accounted for, faults by operation index -----

type OpKind string

type Ledger struct {
	mu      sync.Mutex
	nextID  int
	Open    map[int]string // handle id -> name (still open)
	Opened  int
	Closed  int
	Ops     int      // filesystem operations seen (fault index space)
	OpLog   []string // kind:name per op (bounded)
	FailAt  int      // operation index to fail (-1 none)
	FailAt2 int      // second operation index to fail (-1 none)
	FailErr error
	ShortAt int // read op index to cut short (-1 none)
	ShortTo int // bytes
	// ShortErr: the cut read also returns an error (what pread does when a transfer fails half-way: some bytes AND
	// the error); then positional reads (ReadAt) are cut as well - without the error only sequential reads are,
	// a positional read may not come back short without saying why
	ShortErr error
	// PartialDir: a failing directory read still consumes and returns the entries read so far
	PartialDir bool
	PartialN   int // how many entries such a read hands out (at least 1)
	Reads   int // read operations seen
	Fired   []string
	// OpenAtFire: handles open at the moment a fault fired
	OpenAtFire int
}

func NewLedger() *Ledger {
	return &Ledger{Open: map[int]string{}, FailAt: -1, FailAt2: -1, ShortAt: -1}
}

// OpLogCopy returns the kinds and names of the operations seen so far ("kind:name").
func (l *Ledger) OpLogCopy() []string {
	l.mu.Lock()
	defer l.mu.Unlock()
	return append([]string(nil), l.OpLog...)
}

// op registers one operation; returns the injected error if this is the one to fail.
func (l *Ledger) op(kind, name string) error {
	l.mu.Lock()
	defer l.mu.Unlock()
	idx := l.Ops
	l.Ops++
	if len(l.OpLog) < 4000 {
		l.OpLog = append(l.OpLog, kind+":"+name)
	}
	if idx == l.FailAt || idx == l.FailAt2 {
		l.Fired = append(l.Fired, fmt.Sprintf("fail op#%d %s:%s", idx, kind, name))
		l.OpenAtFire = len(l.Open)
		if l.FailErr != nil {
			return l.FailErr
		}
		return syscall.EIO
	}
	return nil
}

func (l *Ledger) readOp(name string, want int, positional bool) (cut int, fire bool) {
	l.mu.Lock()
	defer l.mu.Unlock()
	idx := l.Reads
	l.Reads++
	if idx == l.ShortAt && want > 1 && (!positional || l.ShortErr != nil) {
		c := l.ShortTo
		if c <= 0 {
			c = 1
		}
		if c >= want {
			c = want - 1
		}
		l.Fired = append(l.Fired, fmt.Sprintf("short read#%d %s: %d of %d", idx, name, c, want))
		l.OpenAtFire = len(l.Open)
		return c, true
	}
	return want, false
}

func (l *Ledger) opened(name string) int {
	l.mu.Lock()
	defer l.mu.Unlock()
	l.nextID++
	l.Open[l.nextID] = name
	l.Opened++
	return l.nextID
}

func (l *Ledger) closed(id int) {
	l.mu.Lock()
	defer l.mu.Unlock()
	if _, ok := l.Open[id]; ok {
		delete(l.Open, id)
		l.Closed++
	}
}

// HasFired reports whether an injected fault has fired.
func (l *Ledger) HasFired() bool {
	l.mu.Lock()
	defer l.mu.Unlock()
	return len(l.Fired) > 0
}

func (l *Ledger) FiredList() []string {
	l.mu.Lock()
	defer l.mu.Unlock()
	return append([]string(nil), l.Fired...)
}

// Disarm switches all pending faults off.
func (l *Ledger) Disarm() {
	l.mu.Lock()
	defer l.mu.Unlock()
	l.FailAt, l.FailAt2, l.ShortAt = -1, -1, -1
}

// Leaked lists the names of handles that are still open.
func (l *Ledger) Leaked() []string {
	l.mu.Lock()
	defer l.mu.Unlock()
	var out []string
	for _, n := range l.Open {
		out = append(out, n)
	}
	sort.Strings(out)
	return out
}

func (l *Ledger) Snapshot() (ops, reads int, fired []string) {
	l.mu.Lock()
	defer l.mu.Unlock()
	return l.Ops, l.Reads, append([]string(nil), l.Fired...)
}

type LedgerFs struct {
	afero.Fs
	L *Ledger
}

func (f *LedgerFs) wrap(name string, h afero.File, err error) (afero.File, error) {
	if err != nil {
		return nil, err
	}
	return &ledgerFile{File: h, l: f.L, id: f.L.opened(name), name: name}, nil
}

func (f *LedgerFs) Open(name string) (afero.File, error) {
	if err := f.L.op("open", name); err != nil {
		return nil, &os.PathError{Op: "open", Path: name, Err: err}
	}
	h, err := f.Fs.Open(name)
	return f.wrap(name, h, err)
}
func (f *LedgerFs) OpenFile(name string, flag int, perm os.FileMode) (afero.File, error) {
	if err := f.L.op("openfile", name); err != nil {
		return nil, &os.PathError{Op: "open", Path: name, Err: err}
	}
	h, err := f.Fs.OpenFile(name, flag, perm)
	return f.wrap(name, h, err)
}
func (f *LedgerFs) Stat(name string) (os.FileInfo, error) {
	if err := f.L.op("stat", name); err != nil {
		return nil, &os.PathError{Op: "stat", Path: name, Err: err}
	}
	return f.Fs.Stat(name)
}

// LstatIfPossible passes the optional interface of the wrapped filesystem through (a decorator that hides it would
// change what the code under test can know about links); counted and faultable like Stat.
func (f *LedgerFs) LstatIfPossible(name string) (os.FileInfo, bool, error) {
	if err := f.L.op("lstat", name); err != nil {
		return nil, false, &os.PathError{Op: "lstat", Path: name, Err: err}
	}
	if l, ok := f.Fs.(afero.Lstater); ok {
		return l.LstatIfPossible(name)
	}
	fi, err := f.Fs.Stat(name)
	return fi, false, err
}

func (f *LedgerFs) Remove(name string) error {
	if err := f.L.op("remove", name); err != nil {
		return &os.PathError{Op: "remove", Path: name, Err: err}
	}
	return f.Fs.Remove(name)
}
func (f *LedgerFs) Mkdir(name string, perm os.FileMode) error {
	if err := f.L.op("mkdir", name); err != nil {
		return &os.PathError{Op: "mkdir", Path: name, Err: err}
	}
	return f.Fs.Mkdir(name, perm)
}

type ledgerFile struct {
	afero.File
	l    *Ledger
	id   int
	name string
}

func (f *ledgerFile) Close() error {
	// an injected Close error still counts as closed
	ierr := f.l.op("close", f.name)
	err := f.File.Close()
	f.l.closed(f.id)
	if ierr != nil {
		return ierr
	}
	return err
}
func (f *ledgerFile) Read(p []byte) (int, error) {
	if err := f.l.op("read", f.name); err != nil {
		return 0, err
	}
	if cut, fire := f.l.readOp(f.name, len(p), false); fire {
		n, err := f.File.Read(p[:cut])
		if err == nil && f.l.ShortErr != nil {
			err = f.l.ShortErr
		}
		return n, err
	}
	return f.File.Read(p)
}
func (f *ledgerFile) ReadAt(p []byte, off int64) (int, error) {
	if err := f.l.op("readat", f.name); err != nil {
		return 0, err
	}
	if cut, fire := f.l.readOp(f.name, len(p), true); fire {
		n, err := f.File.ReadAt(p[:cut], off)
		if err == nil {
			err = f.l.ShortErr
		}
		return n, err
	}
	return f.File.ReadAt(p, off)
}
func (f *ledgerFile) Seek(o int64, w int) (int64, error) {
	if err := f.l.op("seek", f.name); err != nil {
		return 0, err
	}
	return f.File.Seek(o, w)
}
func (f *ledgerFile) Stat() (os.FileInfo, error) {
	if err := f.l.op("fstat", f.name); err != nil {
		return nil, err
	}
	return f.File.Stat()
}
func (f *ledgerFile) Readdir(n int) ([]os.FileInfo, error) {
	if err := f.l.op("readdir", f.name); err != nil {
		if f.l.PartialDir {
			// what (*os.File).Readdir does when the lstat of an entry or a later getdents fails: the entries read so
			// far are consumed and come back together with the error
			ents, _ := f.File.Readdir(max(1, f.l.PartialN))
			return ents, err
		}
		return nil, err
	}
	return f.File.Readdir(n)
}
func (f *ledgerFile) Readdirnames(n int) ([]string, error) {
	if err := f.l.op("readdirnames", f.name); err != nil {
		if f.l.PartialDir && n != 1 {
			names, _ := f.File.Readdirnames(max(1, f.l.PartialN))
			return names, err
		}
		return nil, err
	}
	return f.File.Readdirnames(n)
}
func (f *ledgerFile) Write(p []byte) (int, error) {
	if err := f.l.op("write", f.name); err != nil {
		return 0, err
	}
	return f.File.Write(p)
}

var _ = errors.New

// ---- ChopFile: legal short reads on the underlying file ---------------------------------

// ChopFile cuts every Read at a seeded point (n < len(p), nil error: legal for io.Reader).
type ChopFile struct {
	afero.File
	Seed  uint64
	calls uint64
	Cuts  int
}

func (c *ChopFile) Read(p []byte) (int, error) {
	c.calls++
	if len(p) > 1 && c.Seed != 0 {
		h := splitmix(c.Seed + c.calls)
		if h%3 != 0 {
			cut := 1 + int(h>>8)%(len(p)-1)
			c.Cuts++
			return c.File.Read(p[:cut])
		}
	}
	return c.File.Read(p)
}
