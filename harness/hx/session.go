package hx

import (
	"errors"
	"fmt"
	"os"
	"strings"

	"pgregory.net/rapid"
)

// SessionCase is one connection's history against a generated tree (pure data).
type SessionCase struct {
	Tree       *Node  `json:"tree"`
	AllowWrite bool   `json:"allow_write"`
	Reqs       []Req  `json:"reqs"`
	Transport  string `json:"transport"` // sync | pipelined | split
	SplitAt    int    `json:"split_at,omitempty"`
}

func (s SessionCase) Ops() string {
	var sb strings.Builder
	for i, r := range s.Reqs {
		if i > 0 {
			sb.WriteByte(' ')
		}
		sb.WriteString(r.Op)
	}
	return sb.String()
}

var neverEnds = map[string]bool{"STAT": true, "OPEN_DIR": true, "READ_DIR": true, "READ_ENTRY": true, "READ_ENTRY2": true,
	"OPEN_FILE": true, "DIR_SIZE": true, "CREATE": true, "MKDIR": true, "DELETE": true, "RMDIR": true, "WRITE": true}
var mutating = map[string]bool{"CREATE": true, "MKDIR": true, "DELETE": true, "RMDIR": true, "WRITE": true}

// Scratch returns a fresh scratch directory under the run's scratch root.
func Scratch(prefix string) (string, error) {
	base := os.Getenv("VERIF_SCRATCH")
	if base == "" {
		base = os.TempDir()
	}
	d, err := os.MkdirTemp(base, prefix)
	if err != nil {
		return "", &InfraError{Err: err}
	}
	return d, nil
}

// SessionHooks lets checks add to the basic run.
type SessionHooks struct {
	// Prepare is called with the root after materialising (e.g. to register image objects).
	Prepare func(root string, m *Model)
	// After is called after the session ended (root still exists).
	After func(root string, m *Model) error
	// Target override: start the server for this root; default = in-process BasePathFs.
	Start func(root string, allowWrite bool) (*Target, error)
}

// RunSession materialises the tree, serves it, plays the requests against the
// model and demands a clean end of stream. Timeouts are retried once before
// they count (a hang must repeat to be a violation).
func RunSession(c SessionCase, st *Stats, h SessionHooks) error {
	err := runSessionOnce(c, st, h)
	if err != nil && errors.Is(err, ErrTimeout) {
		SlowRetry(true)
		err2 := runSessionOnce(c, nil, h)
		SlowRetry(false)
		if err2 != nil && errors.Is(err2, ErrTimeout) {
			return Failf("reply-missing", "no complete reply within %v, twice: %v", ReplyTimeout(), err2)
		}
		if st != nil {
			st.Inconcl()
		}
		return err2
	}
	return err
}

func runSessionOnce(c SessionCase, st *Stats, h SessionHooks) error {
	root, err := Scratch("sess")
	if err != nil {
		return err
	}
	defer os.RemoveAll(root)
	if err := Materialize(root, c.Tree); err != nil {
		return fmt.Errorf("materialize: %w", err)
	}
	start := h.Start
	if start == nil {
		start = func(root string, aw bool) (*Target, error) { return StartInproc(root, InprocOpts{AllowWrite: aw}) }
	}
	tg, err := start(root, c.AllowWrite)
	if err != nil {
		return err
	}
	defer tg.Close()
	conn, err := Dial(tg.Addr)
	if err != nil {
		return err
	}
	defer conn.Close()
	m := NewModel(root, c.AllowWrite)
	m.St = st
	m.MaskATime = c.Transport == "pipelined"
	if h.Prepare != nil {
		h.Prepare(root, m)
	}
	wrap := func(i int, e error) error {
		if e == nil {
			return nil
		}
		var f *Fail
		if errors.As(e, &f) {
			return &Fail{Clause: f.Clause, Msg: fmt.Sprintf("request #%d: %s [trace: %s]", i, f.Msg, m.Dump())}
		}
		return fmt.Errorf("request #%d: %w [trace: %s]", i, e, m.Dump())
	}
	i := 0
	for i < len(c.Reqs) && !m.Ended {
		r := c.Reqs[i]
		pipelinable := c.Transport == "pipelined" && neverEnds[r.Op] && (!mutating[r.Op] || !c.AllowWrite) && r.Short == 0
		if pipelinable {
			j := i
			var burst []byte
			for j < len(c.Reqs) {
				rj := c.Reqs[j]
				if !(neverEnds[rj.Op] && (!mutating[rj.Op] || !c.AllowWrite) && rj.Short == 0) {
					break
				}
				burst = append(burst, rj.Encode()...)
				j++
			}
			errc := make(chan error, 1)
			go func() { errc <- conn.Send(burst) }()
			for k := i; k < j; k++ {
				if err := m.Check(conn, c.Reqs[k]); err != nil {
					return wrap(k, err)
				}
				if m.Ended {
					return wrap(k, Failf("ends-connection", "connection ended inside a burst of requests that never end a connection"))
				}
			}
			if err := <-errc; err != nil {
				return wrap(i, Failf("transport", "burst send failed: %v", err))
			}
			if st != nil && j-i >= 2 {
				st.Label("burst>=2")
			}
			i = j
			continue
		}
		if strings.HasPrefix(r.Op, "LOCAL_") {
			// not a request: something happens to the served tree behind the server's back
			if err := m.Local(r); err != nil {
				return wrap(i, err)
			}
			i++
			continue
		}
		enc := r.Encode()
		m.Observe(r)
		var serr error
		if c.Transport == "split" && len(enc) > 1 {
			k := 1 + c.SplitAt%(len(enc)-1)
			serr = conn.SendSplit(enc, k)
		} else {
			serr = conn.Send(enc)
		}
		if serr != nil {
			return wrap(i, Failf("transport", "send failed: %v", serr))
		}
		if err := m.Check(conn, r); err != nil {
			return wrap(i, err)
		}
		i++
	}
	if !m.Ended {
		if err := conn.ExpectEnd(); err != nil {
			return wrap(len(c.Reqs), err)
		}
	}
	if h.After != nil {
		if err := h.After(root, m); err != nil {
			return err
		}
	}
	return nil
}

// ---- request generators -----------------------------------------------------

// PathPool are the paths a session generator chooses from.
type PathPool struct {
	Files, Dirs, Links []string
}

func PoolOf(tree *Node) PathPool {
	f, d, l := tree.Paths()
	return PathPool{Files: f, Dirs: d, Links: l}
}

// GenInsidePath draws a wire path that stays inside the root lexically:
// existing file / dir / link / missing, in several spellings.
func GenInsidePath(t *rapid.T, p PathPool, label string) string {
	var base string
	switch rapid.IntRange(0, 9).Draw(t, label+"-k") {
	case 0, 1, 2:
		if len(p.Files) > 0 {
			base = rapid.SampledFrom(p.Files).Draw(t, label+"-f")
		} else {
			base = "nofile"
		}
	case 3, 4, 5:
		if len(p.Dirs) > 0 {
			base = rapid.SampledFrom(p.Dirs).Draw(t, label+"-d")
		} else {
			base = ""
		}
	case 6:
		if len(p.Links) > 0 {
			base = rapid.SampledFrom(p.Links).Draw(t, label+"-l")
		} else {
			base = "nolink"
		}
	case 7:
		base = ""
	default:
		// missing: sibling of something existing, or below a file
		all := append(append([]string{}, p.Files...), p.Dirs...)
		if len(all) > 0 && rapid.Bool().Draw(t, label+"-below") {
			base = rapid.SampledFrom(all).Draw(t, label+"-m") + "/" + GenName(t, "portable", label+"-mn")
		} else {
			base = GenName(t, "portable", label+"-mn")
		}
	}
	switch rapid.IntRange(0, 8).Draw(t, label+"-sp") {
	case 8:
		return rapid.SampledFrom([]string{"/***DVD***/", "/***PS3***/"}).Draw(t, label+"-virt") + base
	case 0:
		return base // no leading slash
	case 1:
		return "/" + base + "/"
	case 2:
		return "//" + strings.ReplaceAll(base, "/", "//")
	case 3:
		return "/./" + base
	case 4:
		if i := strings.LastIndex(base, "/"); i > 0 {
			return "/" + base[:i] + "/../" + base // down, up, down again: stays inside
		}
		return "/" + base
	default:
		return "/" + base
	}
}
