package hx

import (
	"bytes"
	"errors"
	"fmt"
	"io"
	"net"
	"os"
	"path"
	"path/filepath"
	"sort"
	"strings"
	"time"
)

// Model is the nondeterministic reference model of one connection (DESIGN
// Appendix C).  It never predicts the filesystem from memory: every step looks
// at the real tree with its own syscalls immediately before the request.
type Model struct {
	Root       string // real path of the served root
	AllowWrite bool
	// MaskATime: access times are not judged (pipelined bursts: the server runs ahead of
	// the harness's observations and its own later requests touch access times)
	MaskATime bool

	cwd        cwdState
	ro         roState
	wo         woState
	Ended      bool // the server has ended (or must have ended) the connection
	quietEndOK bool // this request is an empty critical read and faults are injected: see errQuietEnd
	quietPrev  bool // the previous request was one

	// Obj lets a check supply the expected bytes of non-plain objects
	// (images, decrypted views): func(real path, virtual kind) -> object or nil.
	ObjFor func(clean string) Obj

	// Trace of steps (for failure messages)
	Trace []string
	St    *Stats
	pre   *pre

	// SnapRoot: directory whose snapshot is compared around mutating requests (default Root). Concurrent
	// sessions set it to their private subtree.
	SnapRoot string

	// OpenMayFail: opening this existing regular file may legitimately fail (C11 don't-care: a key applies
	// but the content has no valid region table).
	OpenMayFail func(clean string) bool

	// Lenient reports whether an injected I/O fault has fired (C13): from then on a request may also be
	// answered with its failure code, a listing may omit entries, a read may end the connection after a
	// correct prefix - but never with other bytes.
	Lenient func() bool

	// RecordReplies keeps the raw bytes received for every request (needs Conn.KeepRecv)
	RecordReplies bool
	Replies       [][]byte
	ReplyImage    []bool // the reply carries bytes of a generated image (timestamps/random filler vary)
	roIsImage     bool
}

type Obj interface {
	Size() int64
	// ReadAt returns bytes [off, off+n) clipped at Size; nil,false when content is not known (length-only checks).
	ReadAt(off int64, n int) ([]byte, bool)
}

type fileObj struct {
	path string
	size int64
}

func (f fileObj) Size() int64 { return f.size }
func (f fileObj) ReadAt(off int64, n int) ([]byte, bool) {
	if off >= f.size {
		return nil, true
	}
	if int64(n) > f.size-off {
		n = int(f.size - off)
	}
	fh, err := os.Open(f.path)
	if err != nil {
		return nil, false
	}
	defer fh.Close()
	buf := make([]byte, n)
	got, _ := fh.ReadAt(buf, off)
	return buf[:got], true
}

// SizedObj is an object whose content the model does not know (length-only).
type SizedObj struct{ N int64 }

func (s SizedObj) Size() int64                      { return s.N }
func (s SizedObj) ReadAt(int64, int) ([]byte, bool) { return nil, false }

type cwdKind int

const (
	cwdNone cwdKind = iota
	cwdOpen
	cwdExhausted
	cwdNoList
	cwdUnknown
)

type cwdState struct {
	kind cwdKind
	dir  string           // real path
	rem  map[string]int   // names not yet reported (valid + dangling are decided at report time)
	at0  map[string]int64 // access time of each entry as observed when the directory was opened
	// alt: OPEN_DIR that failed may or may not have kept the previous directory
	altNone bool
	// entryReads: READ_ENTRY requests answered on this handle (after a fault one of them may have skipped an entry)
	entryReads int
}

type roKind int

const (
	roNone roKind = iota
	roObj
	roDir
	roUnknown
)

type roState struct {
	kind roKind
	obj  Obj
	cds  int
	path string // real path of an opened regular file (also when its expected content comes from ObjFor)
}

type woState struct {
	open     bool
	path     string
	detached bool // the file was removed while open: effects are no longer observable
}

func NewModel(root string, allowWrite bool) *Model {
	return &Model{Root: root, AllowWrite: allowWrite}
}

// ---- path semantics -------------------------------------------------------

// Resolve maps a wire path to the real path the server is meant to use:
// Clean("/"+p) below the root.  escapes reports whether the lexical walk of p
// rises above the root at any point (C01's subject; C03 does not generate those).
func (m *Model) Resolve(p string) (real string, clean string, escapes bool) {
	clean = path.Clean("/" + p)
	depth := 0
	for _, seg := range strings.Split(p, "/") {
		switch seg {
		case "", ".":
		case "..":
			depth--
			if depth < 0 {
				escapes = true
				depth = 0
			}
		default:
			depth++
		}
	}
	return filepath.Join(m.Root, filepath.FromSlash(clean)), clean, escapes
}

// VirtualKind: "" | "DVD" | "PS3" with the inner clean path.
func VirtualKind(clean string) (kind, inner string) {
	for _, k := range []string{"DVD", "PS3"} {
		pre := "/***" + k + "***/"
		if strings.HasPrefix(clean, pre) {
			return k, "/" + strings.TrimPrefix(clean, pre)
		}
	}
	return "", clean
}

func pathUsable(p string) bool {
	// paths the OS cannot even look up are "non-existent"
	if strings.IndexByte(p, 0) >= 0 {
		return false
	}
	return true
}

// ---- the step function ----------------------------------------------------

func (m *Model) snapDir() string {
	if m.SnapRoot != "" {
		return m.SnapRoot
	}
	return m.Root
}

func (m *Model) lenient() bool { return m.Lenient != nil && m.Lenient() }

// did counts an oracle comparison that was really carried out (evidence that a clause is not vacuous).
func (m *Model) did(what string) {
	if m.St != nil {
		m.St.Label("oracle: " + what)
	}
}

func (m *Model) tr(format string, a ...any) {
	if len(m.Trace) < 400 {
		m.Trace = append(m.Trace, fmt.Sprintf(format, a...))
	}
}

func failf(clause, format string, a ...any) error { return Failf(clause, format, a...) }

// expectClosed: the model says the connection must end now without more bytes.
func (m *Model) expectClosed(c *Conn, what string) error {
	data, closed, err := c.ReadToEnd(1 << 16)
	if len(data) > 0 {
		return failf("ends-connection", "%s: expected the connection to end, got %d bytes: %x", what, len(data), head(data, 48))
	}
	if err != nil {
		return err
	}
	if !closed {
		return failf("ends-connection", "%s: connection not ended", what)
	}
	m.Ended = true
	return nil
}

// endHere: the model cannot tell whether the connection is still open; the
// session stops with a half-close and demands a clean end of stream.
func (m *Model) endHere(c *Conn) error {
	m.Ended = true
	return c.ExpectEnd()
}

func (m *Model) readFixed(c *Conn, n int, what string) ([]byte, error) {
	data, closed, err := c.ReadN(n)
	if err != nil {
		if err == ErrTimeout {
			return nil, fmt.Errorf("%s: got %d of %d reply bytes: %w", what, len(data), n, err)
		}
		return nil, err
	}
	if closed {
		m.Ended = true
		if len(data) == 0 && m.quietPrev && m.lenient() {
			return data, errQuietEnd
		}
		return data, failf("reply-layout", "%s: connection ended after %d of %d reply bytes", what, len(data), n)
	}
	m.quietPrev = false
	return data, nil
}

// errQuietEnd: the connection was found ended at a reply boundary after a request that has no reply at all (an empty
// critical read) during which an injected fault may have ended it: the end is only noticed now and is no violation.
var errQuietEnd = errors.New("connection ended during an earlier reply-less request")

// pre holds what the harness observed of the real tree immediately before a
// request was sent.
type pre struct {
	real, clean string
	usable      bool
	escapes     bool
	lfi, fi     os.FileInfo
	lerr, serr  error
	parentIsDir bool
	snap        map[string]Snap
	woSize      int64
	dirEmpty    bool
}

// Observe must be called before the request is sent (sessions that may mutate
// the tree); bursts of non-mutating requests are observed lazily in Check.
func (m *Model) Observe(r Req) {
	m.pre = m.observe(r)
}

func (m *Model) observe(r Req) *pre {
	p := &pre{woSize: -1}
	p.real, p.clean, p.escapes = m.Resolve(string(r.Path))
	p.usable = pathUsable(p.clean)
	p.lerr, p.serr = os.ErrNotExist, os.ErrNotExist
	switch r.Op {
	case "OPEN_DIR", "STAT", "OPEN_FILE", "CREATE", "DELETE", "RMDIR", "MKDIR", "DIR_SIZE":
		if p.usable {
			p.lfi, p.lerr = os.Lstat(p.real)
			p.fi, p.serr = os.Stat(p.real)
			if pfi, err := os.Stat(filepath.Dir(p.real)); err == nil && pfi.IsDir() {
				p.parentIsDir = true
			}
			if p.lerr == nil && p.lfi.IsDir() {
				ents, _ := os.ReadDir(p.real)
				p.dirEmpty = len(ents) == 0
			}
		}
	}
	if m.AllowWrite && (r.Op == "DELETE" || r.Op == "RMDIR" || r.Op == "MKDIR" || (r.Op == "CREATE" && p.escapes)) {
		p.snap, _ = Snapshot(m.snapDir())
	}
	if r.Op == "WRITE" && m.wo.open {
		if fi, err := os.Stat(m.wo.path); err == nil {
			p.woSize = fi.Size()
		}
	}
	return p
}

// Step sends one request and checks the reply against the model.
func (m *Model) Step(c *Conn, r Req) error {
	if m.Ended {
		return nil
	}
	m.Observe(r)
	if err := c.Send(r.Encode()); err != nil {
		if m.quietEndOK && m.lenient() {
			m.Ended = true
			return nil
		}
		// the server may already have closed on us only if the model says so
		return failf("transport", "send %s failed: %v", r, err)
	}
	return m.Check(c, r)
}

// Check reads and verifies the reply for r (already sent).
func (m *Model) Check(c *Conn, r Req) error {
	start := len(c.Recv)
	err := m.check(c, r)
	if errors.Is(err, errQuietEnd) {
		m.Ended, err = true, nil
	}
	if c.KeepRecv && m.RecordReplies {
		m.Replies = append(m.Replies, append([]byte(nil), c.Recv[start:]...))
		m.ReplyImage = append(m.ReplyImage, m.roIsImage && (r.Op == "READ_FILE" || r.Op == "READ_CRIT" || r.Op == "READ_CD"))
	}
	return err
}

var replySize = map[string]int{"OPEN_FILE": 16, "STAT": 33, "OPEN_DIR": 4, "CREATE": 4, "DELETE": 4, "MKDIR": 4, "RMDIR": 4, "DIR_SIZE": 8}

func (m *Model) check(c *Conn, r Req) error {
	m.tr("%s", r)
	m.quietPrev, m.quietEndOK = m.quietEndOK, false
	what := r.String()
	pr := m.pre
	m.pre = nil
	if pr == nil {
		pr = m.observe(r)
	}
	if r.Short > 0 && r.Short < fullLen(r) {
		// truncated request: nothing may come back, the stream just ends
		c.CloseWrite()
		return m.expectClosed(c, what+" truncated at "+fmt.Sprint(r.Short))
	}
	if n, ok := replySize[r.Op]; ok && (pr.escapes || m.Lenient != nil) {
		return m.checkEscaping(c, r, pr, n, what)
	}
	return m.dispatch(c, r, pr, what)
}

// checkEscaping: the lexical walk of the path rises above the root. The reply
// must be the one for the clamped path, or exactly the non-existent reply; for
// mutating requests the same holds for the effect (C01).
func (m *Model) checkEscaping(c *Conn, r Req, pr *pre, n int, what string) error {
	raw, err := m.readFixed(c, n, what)
	if err != nil {
		return err
	}
	saved := struct {
		cwd cwdState
		ro  roState
		wo  woState
		img bool
	}{m.cwd, m.ro, m.wo, m.roIsImage}
	fake := &Conn{C: &bufConn{b: raw}, Timeout: c.Timeout}
	errClamp := m.dispatch(fake, r, pr, what)
	if errClamp == nil {
		if m.St != nil {
			m.St.Label("escaping path answered like its clamped form")
		}
		return nil
	}
	if !pr.escapes && !m.lenient() {
		return errClamp // no fault has fired: the strict verdict stands
	}
	m.cwd, m.ro, m.wo, m.roIsImage = saved.cwd, saved.ro, saved.wo, saved.img
	// exactly the non-existent reply?
	ne := make([]byte, n)
	for i := 0; i < 8 && i < n; i++ {
		ne[i] = 0xff
	}
	if n == 4 {
		ne = []byte{0xff, 0xff, 0xff, 0xff}
	}
	okNE := bytes.Equal(raw, ne) || (r.Op == "DIR_SIZE" && bytes.Equal(raw, make([]byte, 8)))
	if !pr.escapes && m.lenient() {
		if r.Op == "DIR_SIZE" && pr.serr == nil && pr.fi.IsDir() {
			// a walk that hit the fault skips what it could not read: any value up to the true total
			follow, _, _ := DirSizeTruth(pr.real)
			if v := int64(be64(raw)); v >= 0 && v <= follow {
				okNE = true
			}
		}
		if r.Op == "CREATE" && len(raw) == 4 && int32(be32(raw)) == 0 {
			// the create itself may have succeeded while a later step was hit by the fault
			okNE = true
		}
		if okNE {
			if m.St != nil {
				m.St.Label("after a fault: failure reply / partial value accepted")
			}
			switch r.Op {
			case "OPEN_FILE":
				m.ro = roState{}
				m.roIsImage = false
			case "OPEN_DIR":
				m.cwd = cwdState{kind: cwdUnknown}
			case "CREATE":
				m.wo = woState{}
				if int32(be32(raw)) == 0 {
					m.wo = woState{open: true, path: pr.real, detached: true}
				}
			}
			return nil
		}
		var f *Fail
		msg := errClamp.Error()
		if errors.As(errClamp, &f) {
			msg = f.Msg
		}
		return failf("fault-outcome", "%s after an injected fault: reply %x is neither the correct reply (%s) nor the failure code", what, head(raw, 40), msg)
	}
	if okNE && mutating[r.Op] && m.AllowWrite && pr.snap != nil {
		after, _ := Snapshot(m.snapDir())
		if d := DiffSnap(pr.snap, after, false); d != "" {
			okNE = false
			errClamp = failf("confinement", "%s answered 'non-existent' but the root changed: %s (clamped-form check: %v)", what, d, errClamp)
		}
	}
	if !okNE {
		var f *Fail
		msg := errClamp.Error()
		if errors.As(errClamp, &f) {
			msg = f.Msg
		}
		return failf("confinement", "%s leaves the root lexically; the reply %x is neither the reply for the clamped path %s (%s) nor the non-existent reply", what, head(raw, 40), pr.clean, msg)
	}
	if m.St != nil {
		m.St.Label("escaping path answered like a non-existent path")
	}
	switch r.Op {
	case "OPEN_FILE":
		m.ro = roState{}
		m.roIsImage = false
	case "OPEN_DIR":
		if m.cwd.kind == cwdOpen || m.cwd.kind == cwdExhausted {
			m.cwd.altNone = true
		}
	case "CREATE":
		if m.AllowWrite {
			m.wo = woState{}
		}
	}
	return nil
}

// prefixConn replays bytes already taken from a connection before reading on.
type prefixConn struct {
	pre []byte
	net.Conn
}

func (p *prefixConn) Read(b []byte) (int, error) {
	if len(p.pre) > 0 {
		n := copy(b, p.pre)
		p.pre = p.pre[n:]
		return n, nil
	}
	return p.Conn.Read(b)
}

type bufConn struct {
	b []byte
}

func (b *bufConn) Read(p []byte) (int, error) {
	if len(b.b) == 0 {
		return 0, io.EOF
	}
	n := copy(p, b.b)
	b.b = b.b[n:]
	return n, nil
}
func (b *bufConn) Write(p []byte) (int, error)      { return len(p), nil }
func (b *bufConn) Close() error                     { return nil }
func (b *bufConn) LocalAddr() net.Addr              { return nil }
func (b *bufConn) RemoteAddr() net.Addr             { return nil }
func (b *bufConn) SetDeadline(time.Time) error      { return nil }
func (b *bufConn) SetReadDeadline(time.Time) error  { return nil }
func (b *bufConn) SetWriteDeadline(time.Time) error { return nil }

func (m *Model) dispatch(c *Conn, r Req, pr *pre, what string) error {
	switch r.Op {
	case "UNKNOWN", "RAW":
		return m.expectClosed(c, what)
	case "OPEN_DIR":
		return m.openDir(c, r, pr, what)
	case "READ_DIR":
		return m.readDir(c, what)
	case "READ_ENTRY":
		return m.readEntry(c, false, what)
	case "READ_ENTRY2":
		return m.readEntry(c, true, what)
	case "STAT":
		return m.stat(c, r, pr, what)
	case "OPEN_FILE":
		return m.openFile(c, r, pr, what)
	case "READ_FILE":
		return m.readFile(c, r, what)
	case "READ_CRIT":
		return m.readCrit(c, r, what)
	case "READ_CD":
		return m.readCD(c, r, what)
	case "CREATE":
		return m.create(c, r, pr, what)
	case "WRITE":
		return m.write(c, r, pr, what)
	case "DELETE", "RMDIR":
		return m.remove(c, r, pr, what)
	case "MKDIR":
		return m.mkdir(c, r, pr, what)
	case "DIR_SIZE":
		return m.dirSize(c, r, pr, what)
	}
	return fmt.Errorf("model: unknown op %s", r.Op)
}

func fullLen(r Req) int {
	rr := r
	rr.Short = 0
	return len(rr.Encode())
}

func (m *Model) result32(c *Conn, what string) (int32, error) {
	b, err := m.readFixed(c, 4, what)
	if err != nil {
		return 0, err
	}
	return int32(be32(b)), nil
}

// ---- directories ----------------------------------------------------------

func listDir(dir string) (map[string]int, error) {
	ents, err := os.ReadDir(dir)
	if err != nil {
		return nil, err
	}
	out := map[string]int{}
	for _, e := range ents {
		out[e.Name()]++
	}
	return out, nil
}

func (m *Model) openDir(c *Conn, r Req, pr *pre, what string) error {
	res, err := m.result32(c, what)
	if err != nil {
		return err
	}
	if res != 0 && res != -1 {
		return failf("result-code", "%s: result %d is neither 0 nor -1", what, res)
	}
	real, clean := pr.real, pr.clean
	vk, _ := VirtualKind(clean)
	if vk != "" {
		// virtual-image path used as a directory: reply must be a failure, listing state unknown
		if res != -1 {
			return failf("opendir-truth", "%s: virtual image path reported as directory", what)
		}
		m.cwd = cwdState{kind: cwdUnknown}
		return nil
	}
	fi, serr := pr.fi, pr.serr
	switch {
	case serr == nil && fi.IsDir():
		if res != 0 {
			return failf("opendir-truth", "%s: existing directory %s refused (%d)", what, clean, res)
		}
		rem, lerr := listDir(real)
		if lerr != nil {
			m.cwd = cwdState{kind: cwdUnknown}
			return nil
		}
		at0 := map[string]int64{}
		for name := range rem {
			if t := entryTruth(real, name); t.ok {
				at0[name] = t.atimeA
			}
		}
		m.cwd = cwdState{kind: cwdOpen, dir: real, rem: rem, at0: at0}
	case serr == nil:
		if res != -1 {
			return failf("opendir-truth", "%s: non-directory %s accepted as directory", what, clean)
		}
		// {handle replaced by a non-listable one | previous directory kept}: a non-listable
		// handle answers like no directory at all, so this is the same alternative as below
		if m.cwd.kind == cwdOpen || m.cwd.kind == cwdExhausted {
			m.cwd.altNone = true
		} else if m.cwd.kind != cwdUnknown {
			m.cwd = cwdState{kind: cwdNoList}
		}
	default:
		if res != -1 {
			return failf("opendir-truth", "%s: missing path %s accepted as directory", what, clean)
		}
		// previous directory kept or dropped: both admissible
		if m.cwd.kind == cwdOpen || m.cwd.kind == cwdExhausted {
			m.cwd.altNone = true
		}
	}
	return nil
}

type entTruth struct {
	size           int64
	isDir          bool
	mtime, ctime   int64
	atimeA, atimeB int64
	ok             bool
}

func entryTruth(dir, name string) entTruth {
	p := filepath.Join(dir, name)
	fi, err := os.Stat(p) // follows symlinks
	if err != nil {
		return entTruth{}
	}
	mt, ct, at := StatTimes(fi)
	t := entTruth{ok: true, isDir: fi.IsDir(), mtime: mt, ctime: ct, atimeA: at, atimeB: at}
	if !fi.IsDir() {
		t.size = fi.Size()
	}
	return t
}

func (m *Model) readDir(c *Conn, what string) error {
	hdr, err := m.readFixed(c, 8, what)
	if err != nil {
		return err
	}
	count := int64(be64(hdr))
	maxCount := int64(0)
	if m.cwd.kind == cwdOpen {
		for _, n := range m.cwd.rem {
			maxCount += int64(n)
		}
	}
	if m.cwd.kind == cwdUnknown {
		if count < 0 || count > 1<<20 {
			return failf("reply-layout", "%s: absurd entry count %d", what, count)
		}
		if _, err := m.readFixed(c, int(count)*529, what); err != nil {
			return err
		}
		return nil
	}
	if count < 0 || count > maxCount {
		if m.cwd.altNone && count == 0 {
			m.cwd = cwdState{kind: cwdNone}
			return nil
		}
		return failf("listing-complete", "%s: count %d but at most %d entries remain in %s", what, count, maxCount, m.cwd.dir)
	}
	body, err := m.readFixed(c, int(count)*529, what)
	if err != nil {
		return err
	}
	if m.cwd.kind != cwdOpen {
		// none / exhausted / nolist: must be empty
		if count != 0 {
			return failf("listing-once", "%s: %d entries reported without an open, unexhausted directory", what, count)
		}
		return nil
	}
	if count == 0 && m.cwd.altNone {
		// the failed OPEN_DIR dropped the previous directory
		anyValid := false
		for name := range m.cwd.rem {
			if entryTruth(m.cwd.dir, name).ok {
				anyValid = true
			}
		}
		if anyValid {
			m.cwd = cwdState{kind: cwdNone}
			return nil
		}
	}
	m.cwd.altNone = false
	// every reported entry must be a remaining entry with true attributes; every remaining valid entry must be reported
	rem := m.cwd.rem
	for i := 0; i < int(count); i++ {
		e := body[i*529 : (i+1)*529]
		size := int64(be64(e[0:8]))
		mtime := int64(be64(e[8:16]))
		isDir := e[16]
		nameb := e[17:]
		z := bytes.IndexByte(nameb, 0)
		if z < 0 {
			z = len(nameb)
		}
		name := string(nameb[:z])
		for _, b := range nameb[z:] {
			if b != 0 {
				return failf("reply-layout", "%s: entry %q name field not NUL padded", what, name)
			}
		}
		if name == "." || name == ".." {
			return failf("listing-nodots", "%s: entry %q reported", what, name)
		}
		if rem[name] <= 0 {
			return failf("listing-once", "%s: entry %q reported but not (or no longer) in the directory's unreported set", what, name)
		}
		rem[name]--
		if rem[name] == 0 {
			delete(rem, name)
		}
		t := entryTruth(m.cwd.dir, name)
		if !t.ok {
			return failf("listing-dangling", "%s: entry %q does not resolve but was reported", what, name)
		}
		if isDir > 1 || (isDir == 1) != t.isDir {
			return failf("listing-attrs", "%s: entry %q kind %d, truth dir=%v", what, name, isDir, t.isDir)
		}
		if size != t.size {
			return failf("listing-attrs", "%s: entry %q size %d, truth %d", what, name, size, t.size)
		}
		if mtime != t.mtime {
			return failf("listing-attrs", "%s: entry %q mtime %d, truth %d", what, name, mtime, t.mtime)
		}
		m.did("listed entry compared with the directory")
	}
	missing := false
	for name := range rem {
		if entryTruth(m.cwd.dir, name).ok {
			if !m.lenient() {
				return failf("listing-complete", "%s: entry %q of %s never reported", what, name, m.cwd.dir)
			}
			// after a fault: no entries at all is the failure answer; a symbolic link whose resolution failed is left
			// out like a dangling one (and so is any entry an earlier entry-by-entry read could not stat); but a
			// listing that names some entries and silently lacks others is wrong data
			if fi, err := os.Lstat(filepath.Join(m.cwd.dir, name)); count > 0 && m.cwd.entryReads == 0 && err == nil && fi.Mode()&os.ModeSymlink == 0 {
				return failf("fault-outcome", "%s: after an I/O fault the listing of %s names %d entries as if complete, but lacks %q", what, m.cwd.dir, count, name)
			}
			missing = true
		}
	}
	if missing {
		// after a fault the listing may have been cut short: the handle may or may not be exhausted
		return nil
	}
	m.cwd = cwdState{kind: cwdExhausted, dir: m.cwd.dir}
	return nil
}

func (m *Model) readEntry(c *Conn, v2 bool, what string) error {
	n := 11
	if v2 {
		n = 35
	}
	hdr, err := m.readFixed(c, n, what)
	if err != nil {
		return err
	}
	size := int64(be64(hdr[0:8]))
	var mtime, ctime, atime int64
	var nameLen int
	var isDir byte
	if v2 {
		mtime, ctime, atime = int64(be64(hdr[8:16])), int64(be64(hdr[16:24])), int64(be64(hdr[24:32]))
		nameLen, isDir = int(be16(hdr[32:34])), hdr[34]
	} else {
		nameLen, isDir = int(be16(hdr[8:10])), hdr[10]
	}
	isEnd := size == -1
	m.cwd.entryReads++
	if m.cwd.kind == cwdUnknown {
		if nameLen > 0 && !isEnd {
			if _, err := m.readFixed(c, nameLen, what); err != nil {
				return err
			}
		}
		return nil
	}
	if isEnd {
		if nameLen != 0 || isDir != 0 || mtime != 0 || ctime != 0 || atime != 0 {
			return failf("reply-layout", "%s: end marker with non-zero fields %x", what, hdr)
		}
		if m.cwd.kind == cwdOpen && !m.cwd.altNone && !m.lenient() {
			for name := range m.cwd.rem {
				if entryTruth(m.cwd.dir, name).ok {
					return failf("listing-complete", "%s: end marker while entry %q of %s was never reported", what, name, m.cwd.dir)
				}
			}
		}
		m.cwd = cwdState{kind: cwdNone}
		return nil
	}
	if m.cwd.kind != cwdOpen {
		return failf("listing-once", "%s: an entry (size %d, namelen %d) reported without an open, unexhausted directory", what, size, nameLen)
	}
	m.cwd.altNone = false
	if nameLen == 0 {
		return failf("reply-layout", "%s: entry with empty name", what)
	}
	nb, err := m.readFixed(c, nameLen, what)
	if err != nil {
		return err
	}
	name := string(nb)
	if name == "." || name == ".." {
		return failf("listing-nodots", "%s: entry %q reported", what, name)
	}
	if m.cwd.rem[name] <= 0 {
		return failf("listing-once", "%s: entry %q reported but not (or no longer) in the unreported set of %s", what, name, m.cwd.dir)
	}
	m.cwd.rem[name]--
	if m.cwd.rem[name] == 0 {
		delete(m.cwd.rem, name)
	}
	t := entryTruth(m.cwd.dir, name)
	if !t.ok {
		return failf("listing-dangling", "%s: entry %q does not resolve but was reported", what, name)
	}
	if isDir > 1 || (isDir == 1) != t.isDir {
		return failf("listing-attrs", "%s: entry %q kind %d, truth dir=%v", what, name, isDir, t.isDir)
	}
	if size != t.size {
		return failf("listing-attrs", "%s: entry %q size %d, truth %d", what, name, size, t.size)
	}
	if v2 {
		if mtime != t.mtime || ctime != t.ctime {
			return failf("listing-attrs", "%s: entry %q mtime/ctime %d/%d, truth %d/%d", what, name, mtime, ctime, t.mtime, t.ctime)
		}
		lo, hi := t.atimeA, t.atimeA
		if a0, ok := m.cwd.at0[name]; ok {
			lo, hi = min64(lo, a0), max64(hi, a0)
		}
		if !m.MaskATime && !(atime >= lo-1 && atime <= hi+1) {
			return failf("listing-attrs", "%s: entry %q atime %d, truth %d..%d", what, name, atime, lo, hi)
		}
	}
	return nil
}

// ---- stat / dir size ------------------------------------------------------

func (m *Model) stat(c *Conn, r Req, pr *pre, what string) error {
	real, clean := pr.real, pr.clean
	before, serr := pr.fi, pr.serr
	b, err := m.readFixed(c, 33, what)
	if err != nil {
		return err
	}
	size := int64(be64(b[0:8]))
	mtime, ctime, atime := int64(be64(b[8:16])), int64(be64(b[16:24])), int64(be64(b[24:32]))
	isDir := b[32]
	vk, _ := VirtualKind(clean)
	if vk != "" {
		// -1 or the image's size: only the layout is constrained
		return nil
	}
	if serr != nil {
		if size != -1 || mtime != 0 || ctime != 0 || atime != 0 || isDir != 0 {
			return failf("stat-truth", "%s: missing path %s answered %x", what, clean, b)
		}
		return nil
	}
	if size == -1 {
		return failf("stat-truth", "%s: existing path %s answered -1", what, clean)
	}
	mt, ct, at := StatTimes(before)
	wantSize := before.Size()
	if before.IsDir() {
		wantSize = 0
	}
	if isDir > 1 || (isDir == 1) != before.IsDir() || size != wantSize || mtime != mt || ctime != ct {
		return failf("stat-truth", "%s: %s answered size=%d mtime=%d ctime=%d dir=%d, truth size=%d mtime=%d ctime=%d dir=%v",
			what, clean, size, mtime, ctime, isDir, wantSize, mt, ct, before.IsDir())
	}
	after, aerr := os.Stat(real)
	at2 := at
	if aerr == nil {
		_, _, at2 = StatTimes(after)
	}
	if !m.MaskATime && !(atime >= min64(at, at2)-1 && atime <= max64(at, at2)+1) {
		return failf("stat-truth", "%s: %s atime %d, truth %d..%d", what, clean, atime, at, at2)
	}
	return nil
}

// DirSizeTruth returns (sum following symlinks, sum of regular files proper, hasSymlink).
func DirSizeTruth(dir string) (follow, proper int64, hasLink bool) {
	// proper: the regular files beneath dir, links not followed.
	// follow: links followed, every real directory entered once per request (by identity: links back to an ancestor
	// or to a directory that is also reached otherwise add nothing), a link to a file counts with its target's size.
	var visited []os.FileInfo
	seen := 0
	var rec func(p string, viaLink bool)
	rec = func(p string, viaLink bool) {
		if seen > 400000 {
			return
		}
		di, err := os.Stat(p)
		if err != nil {
			return
		}
		for _, v := range visited {
			if os.SameFile(v, di) {
				return
			}
		}
		visited = append(visited, di)
		ents, err := os.ReadDir(p)
		if err != nil {
			return
		}
		for _, e := range ents {
			seen++
			fp := filepath.Join(p, e.Name())
			li, err := os.Lstat(fp)
			if err != nil {
				continue
			}
			if li.Mode()&os.ModeSymlink != 0 {
				hasLink = true
				fi, err := os.Stat(fp)
				if err != nil {
					continue
				}
				if fi.IsDir() {
					rec(fp, true)
				} else {
					follow += fi.Size()
				}
				continue
			}
			if li.IsDir() {
				rec(fp, viaLink)
				continue
			}
			follow += li.Size()
			if !viaLink {
				proper += li.Size()
			}
		}
	}
	rec(dir, false)
	return
}

// DirSizeNaive: links followed and every path counted (a directory reachable by two paths counts twice), except that a
// path never enters a directory that is already on it (a link back to an ancestor adds nothing): the "as the client
// sees it when listing" reading, finite also when links form cycles. -1 if the walk would be unreasonably large.
func DirSizeNaive(dir string) int64 {
	var stack []os.FileInfo
	steps := 0
	huge := false
	var rec func(p string) int64
	rec = func(p string) int64 {
		steps++
		if huge || steps > 400000 {
			huge = true
			return 0
		}
		di, err := os.Stat(p)
		if err != nil {
			return 0
		}
		for _, v := range stack {
			if os.SameFile(v, di) {
				return 0
			}
		}
		stack = append(stack, di)
		defer func() { stack = stack[:len(stack)-1] }()
		ents, err := os.ReadDir(p)
		if err != nil {
			return 0
		}
		var sum int64
		for _, e := range ents {
			fp := filepath.Join(p, e.Name())
			fi, err := os.Stat(fp)
			if err != nil {
				continue
			}
			if fi.IsDir() {
				sum += rec(fp)
			} else {
				sum += fi.Size()
			}
		}
		return sum
	}
	n := rec(dir)
	if huge {
		return -1
	}
	return n
}

func (m *Model) dirSize(c *Conn, r Req, pr *pre, what string) error {
	real, clean := pr.real, pr.clean
	fi, serr := pr.fi, pr.serr
	b, err := m.readFixed(c, 8, what)
	if err != nil {
		return err
	}
	got := int64(be64(b))
	vk, _ := VirtualKind(clean)
	switch {
	case vk != "":
		return nil
	case serr != nil:
		if got != -1 && got != 0 {
			return failf("dirsize-truth", "%s: missing %s answered %d", what, clean, got)
		}
	case fi.IsDir():
		follow, proper, _ := DirSizeTruth(real)
		if got != follow && got != proper {
			if naive := DirSizeNaive(real); naive < 0 || got != naive {
				return failf("dirsize-truth", "%s: %s answered %d, truth %d (following links, each directory once) / %d (regular files proper) / %d (every path that does not re-enter a directory it is in)", what, clean, got, follow, proper, naive)
			}
		}
	}
	return nil
}

// ---- files ----------------------------------------------------------------

func (m *Model) openFile(c *Conn, r Req, pr *pre, what string) error {
	real, clean := pr.real, pr.clean
	t0 := time.Now().Unix() - 1
	b, err := m.readFixed(c, 16, what)
	if err != nil {
		return err
	}
	t1 := time.Now().Unix()
	m.roIsImage = false
	size, mtime := int64(be64(b[0:8])), int64(be64(b[8:16]))
	if path.Base(clean) == "CLOSEFILE" {
		if size != 0 || mtime != 0 {
			return failf("closefile", "%s: CLOSEFILE answered %x", what, b)
		}
		m.ro = roState{}
		return nil
	}
	vk, inner := VirtualKind(clean)
	if vk != "" {
		innerReal := filepath.Join(m.Root, filepath.FromSlash(inner))
		fi, serr := os.Stat(innerReal)
		if !pathUsable(clean) {
			serr = os.ErrNotExist
		}
		if serr != nil || !fi.IsDir() {
			if size != -1 || mtime != 0 {
				return failf("open-truth", "%s: image of non-directory %s answered %x", what, inner, b)
			}
			m.ro = roState{}
			return nil
		}
		if size == -1 {
			// image creation may legitimately fail (e.g. PS3 mode without PARAM.SFO)
			if mtime != 0 {
				return failf("reply-layout", "%s: failure reply with mtime %d", what, mtime)
			}
			m.ro = roState{}
			return nil
		}
		if size <= 0 || size%2048 != 0 {
			return failf("open-truth", "%s: image size %d is not a positive multiple of 2048", what, size)
		}
		if mtime < t0-2 || mtime > t1+2 {
			return failf("open-truth", "%s: image mtime %d outside the request window %d..%d", what, mtime, t0, t1)
		}
		var obj Obj = SizedObj{size}
		if m.ObjFor != nil {
			if o := m.ObjFor(clean); o != nil {
				obj = o
				if o.Size() != size {
					return failf("open-truth", "%s: announced image size %d, canonical image %d", what, size, o.Size())
				}
			}
		}
		m.ro = roState{kind: roObj, obj: obj, cds: 2352}
		m.roIsImage = true
		return nil
	}
	m.roIsImage = false
	fi, serr := pr.fi, pr.serr
	switch {
	case serr == nil && !fi.IsDir() && !fi.Mode().IsRegular():
		// a special file (named pipe, device): whatever the prompt answer is, failure or an open whose content the
		// harness does not know - but an answer (opening a pipe may block for ever)
		if size == -1 {
			m.ro = roState{}
		} else {
			m.ro = roState{kind: roUnknown}
		}
	case serr != nil:
		if size != -1 || mtime != 0 {
			return failf("open-truth", "%s: missing %s answered %x", what, clean, b)
		}
		m.ro = roState{}
	case fi.IsDir():
		// documented layout only; value fields masked
		if size == -1 {
			m.ro = roState{}
		} else {
			m.ro = roState{kind: roDir}
		}
	default:
		if size == -1 && mtime == 0 && m.OpenMayFail != nil && m.OpenMayFail(clean) {
			// an image whose decryption cannot be set up (no valid region table for the key that applies)
			m.ro = roState{}
			return nil
		}
		if size != fi.Size() || mtime != fi.ModTime().Unix() {
			return failf("open-truth", "%s: %s answered size=%d mtime=%d, truth size=%d mtime=%d", what, clean, size, mtime, fi.Size(), fi.ModTime().Unix())
		}
		var obj Obj = fileObj{path: real, size: fi.Size()}
		if m.ObjFor != nil {
			if o := m.ObjFor(clean); o != nil {
				obj = o
			}
		}
		m.ro = roState{kind: roObj, obj: obj, cds: 2352, path: real}
		if s := DetectCDSectorSize(real, fi.Size()); s > 0 {
			m.ro.cds = s
		}
	}
	return nil
}

// DetectCDSectorSize is the harness's own reading of the documented rule:
// images between 2 MiB and 848 MiB carry the ISO 9660 / PLAYSTATION signature in
// their 16th sector; the sector size is the one for which it is found.
func DetectCDSectorSize(p string, size int64) int {
	if size < 0x200000 || size > 0x35000000 {
		return 0
	}
	f, err := os.Open(p)
	if err != nil {
		return 0
	}
	defer f.Close()
	for _, s := range []int{2048, 2328, 2336, 2340, 2352, 2368, 2448} {
		buf := make([]byte, 20)
		if n, _ := f.ReadAt(buf, int64(24+16*s)); n < 20 {
			continue
		}
		if string(buf[0:6]) == "\x01CD001" || string(buf[8:20]) == "PLAYSTATION " {
			return s
		}
	}
	return 0
}

// unseekable: offsets the operating system itself refuses for this file (the
// harness asks with its own lseek) are a don't-care like offsets >= 2^63.
func unseekable(o Obj, off uint64) bool {
	if off >= 1<<63 {
		return true
	}
	fo, ok := o.(fileObj)
	if !ok {
		// views over real files inherit the filesystem's offset limit, which the harness cannot probe
		// through them: very large offsets are a don't-care there as well
		return off > 1<<40
	}
	if int64(off) <= fo.size {
		return false
	}
	f, err := os.Open(fo.path)
	if err != nil {
		return false
	}
	defer f.Close()
	_, err = f.Seek(int64(off), 0)
	return err != nil
}

func (m *Model) readFile(c *Conn, r Req, what string) error {
	if m.ro.kind == roUnknown {
		// object changed under the open handle (session mutated it): framing only
		data, closed, err := c.ReadN(4)
		if err != nil {
			return err
		}
		if closed {
			m.Ended = true
			if len(data) != 0 {
				return failf("ends-connection", "%s: %d stray bytes", what, len(data))
			}
			return nil
		}
		k := int64(int32(be32(data)))
		if k > int64(r.N) {
			return failf("read-announce", "%s: announced %d > limit", what, k)
		}
		if k > 0 {
			if _, err := m.readFixed(c, int(k), what); err != nil {
				return err
			}
		}
		return nil
	}
	if m.ro.kind != roObj {
		// -1 header alone (with fault injection also: connection ended without stray bytes)
		data, closed, err := c.ReadN(4)
		if err != nil {
			return err
		}
		if closed {
			if len(data) != 0 {
				return failf("ends-connection", "%s without readable object: %d stray bytes %x", what, len(data), data)
			}
			m.Ended = true
			if m.Lenient == nil {
				// only malformed, truncated and unknown requests and unsatisfiable critical reads end a connection: the
				// ordinary read has a result code for "cannot be read"
				return failf("reply-code", "%s without readable object: the connection was ended instead of the answer -1", what)
			}
			return nil
		}
		if k := int32(be32(data)); k != -1 && !(k == 0 && (r.N == 0 || m.ro.kind == roObj)) {
			return failf("read-announce", "%s without readable object: announced %d", what, k)
		}
		return nil
	}
	if m.Lenient != nil {
		data, closed, err := c.ReadN(4)
		if err != nil {
			return err
		}
		if closed {
			m.Ended = true
			if len(data) != 0 || !m.lenient() {
				return failf("fault-outcome", "%s: connection ended after %d bytes (fault fired: %v)", what, len(data), m.lenient())
			}
			return nil
		}
		if int32(be32(data)) == -1 && m.lenient() {
			return nil
		}
		c = &Conn{C: &prefixConn{pre: data, Conn: c.C}, Timeout: c.Timeout, KeepRecv: false}
	}
	hdr, err := m.readFixed(c, 4, what)
	if err != nil {
		return err
	}
	k := int64(int32(be32(hdr)))
	size := m.ro.obj.Size()
	want := int64(r.N)
	if r.Off >= 1<<63 || int64(r.Off) >= size {
		want = 0 // (the offset is an unsigned number: 2^63 and above lie behind the end of every object)
	} else if want > size-int64(r.Off) {
		want = size - int64(r.Off)
	}
	if want > 1<<31-1 {
		want = 1<<31 - 1 // the announced length is a signed 32-bit number: more cannot be delivered by one request
	}
	if k != want {
		return failf("read-announce", "%s on object of size %d: announced %d, expected %d", what, size, k, want)
	}
	if k == 0 {
		return nil
	}
	if m.Lenient != nil {
		// with faults injected the transfer may end after a correct prefix (the length was announced before the
		// data was read): "a correct prefix followed by disconnection"
		body, closed, err := c.ReadN(int(k))
		if err != nil {
			return err
		}
		if ok, d := objMatch(m.ro.obj, int64(r.Off), body); !ok {
			return failf("read-prefix", "%s: received bytes differ from the object's bytes at +%d", what, d)
		}
		if closed {
			m.Ended = true
			if !m.lenient() {
				return failf("reply-layout", "%s: connection ended after %d of %d announced bytes without any fault", what, len(body), k)
			}
		}
		return nil
	}
	body, err := m.readFixed(c, int(k), what)
	if err != nil {
		return err
	}
	if ok, d := objMatch(m.ro.obj, int64(r.Off), body); !ok {
		return failf("read-bytes", "%s: body differs from the object's bytes at +%d", what, d)
	}
	m.did("read bytes compared with the object")
	return nil
}

func firstDiff(a, b []byte) int {
	n := len(a)
	if len(b) < n {
		n = len(b)
	}
	for i := 0; i < n; i++ {
		if a[i] != b[i] {
			return i
		}
	}
	return n
}

func (m *Model) unknownRaw(c *Conn, max int, what string) error {
	c.CloseWrite()
	data, closed, err := c.ReadToEnd(max + 16)
	if err != nil {
		return err
	}
	m.Ended = true
	if !closed || len(data) > max {
		return failf("read-prefix", "%s: %d bytes received (limit %d), closed=%v", what, len(data), max, closed)
	}
	return nil
}

func (m *Model) readCrit(c *Conn, r Req, what string) error {
	if m.ro.kind == roUnknown {
		return m.unknownRaw(c, int(r.N), what)
	}
	size := int64(-1)
	if m.ro.kind == roObj {
		size = m.ro.obj.Size()
	}
	// (no sum: offset + count may exceed 2^63)
	// (an empty read is satisfied at any offset - also one the file cannot be positioned at: nothing has to be read)
	sat := m.ro.kind == roObj && (r.N == 0 || r.Off < 1<<63 && int64(r.Off) <= size && int64(r.N) <= size-int64(r.Off))
	if !sat && r.N == 0 {
		// an empty read is vacuously satisfied; without a readable object the server
		// may also end the connection: both are fine, nothing may arrive either way
		return m.endHere(c)
	}
	if sat && m.Lenient != nil && r.N > 0 {
		// a fault may cut the transfer: correct prefix, then the connection ends
		data, closed, err := c.ReadN(int(r.N))
		if err != nil {
			return err
		}
		if ok, d := objMatch(m.ro.obj, int64(r.Off), data); !ok {
			return failf("read-prefix", "%s: received bytes differ from the object's bytes at +%d", what, d)
		}
		if closed {
			m.Ended = true
			if !m.lenient() {
				return failf("reply-layout", "%s: connection ended after %d of %d bytes without any fault", what, len(data), r.N)
			}
		}
		return nil
	}
	if sat {
		if r.N == 0 {
			// nothing comes back; with fault injection the server may have ended the connection (its seek failed),
			// which only the next request can notice
			m.quietEndOK = m.Lenient != nil
			return nil
		}
		body, err := m.readFixed(c, int(r.N), what)
		if err != nil {
			return err
		}
		if ok, d := objMatch(m.ro.obj, int64(r.Off), body); !ok {
			return failf("read-bytes", "%s: data differs from the object's bytes at +%d", what, d)
		}
		return nil
	}
	// cannot be satisfied: at most a correct prefix, then the connection ends
	data, closed, err := c.ReadToEnd(int(r.N) + 16)
	if err != nil {
		return err
	}
	if !closed {
		return failf("ends-connection", "%s cannot be satisfied but %d bytes arrived and the connection stayed open", what, len(data))
	}
	m.Ended = true
	var avail int64
	if m.ro.kind == roObj && r.Off < 1<<63 && int64(r.Off) < size {
		avail = size - int64(r.Off)
	}
	if int64(len(data)) > avail {
		return failf("read-prefix", "%s: %d bytes received but only %d exist from that offset", what, len(data), avail)
	}
	if len(data) > 0 {
		if ok, d := objMatch(m.ro.obj, int64(r.Off), data); !ok {
			return failf("read-prefix", "%s: received bytes are not a prefix of the object's bytes (diff at +%d)", what, d)
		}
	}
	return nil
}

func (m *Model) readCD(c *Conn, r Req, what string) error {
	if m.ro.kind == roUnknown {
		return m.unknownRaw(c, int(r.Count)*2048, what)
	}
	// expected stream: user data of sectors start..start+count-1, as far as the object has them
	var exp []byte
	known := true
	full := m.ro.kind == roObj && m.ro.cds > 0
	if full {
		size := m.ro.obj.Size()
		for k := int64(0); k < int64(r.Count); k++ {
			off := 24 + (int64(r.Start)+k)*int64(m.ro.cds)
			if off+2048 > size {
				full = false
				if off < size {
					b, ok := m.ro.obj.ReadAt(off, int(size-off))
					known = known && ok
					if !ok {
						b = make([]byte, size-off) // content unknown: only the length is judged
					}
					exp = append(exp, b...)
				}
				break
			}
			b, ok := m.ro.obj.ReadAt(off, 2048)
			known = known && ok
			if !ok {
				b = make([]byte, 2048)
			}
			exp = append(exp, b...)
			if len(exp) > 64<<20 {
				break
			}
		}
	}
	// received sectors are compared one by one through the object (which may admit several views, C13)
	cdMatch := func(data []byte) (bool, int) {
		if !known || m.ro.kind != roObj || m.ro.cds <= 0 {
			return true, 0
		}
		for k := 0; k*2048 < len(data); k++ {
			off := 24 + (int64(r.Start)+int64(k))*int64(m.ro.cds)
			end := (k + 1) * 2048
			if end > len(data) {
				end = len(data)
			}
			if ok, d := objMatch(m.ro.obj, off, data[k*2048:end]); !ok {
				return false, k*2048 + d
			}
		}
		return true, 0
	}
	if r.Count == 0 && !(m.ro.kind == roObj && m.ro.cds > 0) {
		return m.endHere(c)
	}
	if full && m.Lenient != nil && r.Count > 0 {
		data, closed, err := c.ReadN(len(exp))
		if err != nil {
			return err
		}
		if ok, d := cdMatch(data); !ok {
			return failf("read-prefix", "%s: received bytes differ from the expected sectors at +%d", what, d)
		}
		if closed {
			m.Ended = true
			if !m.lenient() {
				return failf("reply-layout", "%s: connection ended after %d of %d bytes without any fault", what, len(data), len(exp))
			}
		}
		return nil
	}
	if full {
		if r.Count == 0 {
			m.quietEndOK = m.Lenient != nil
			return nil
		}
		body, err := m.readFixed(c, len(exp), what)
		if err != nil {
			return err
		}
		if ok, d := cdMatch(body); !ok {
			return failf("cd-bytes", "%s (sector size %d): data differs from the sectors' user bytes at +%d", what, m.ro.cds, d)
		}
		return nil
	}
	data, closed, err := c.ReadToEnd(len(exp) + 16)
	if err != nil {
		return err
	}
	if !closed {
		return failf("ends-connection", "%s cannot be satisfied but the connection stayed open (%d bytes)", what, len(data))
	}
	m.Ended = true
	if len(data) > len(exp) {
		return failf("read-prefix", "%s: %d bytes received, at most %d exist", what, len(data), len(exp))
	}
	if ok, d := cdMatch(data); !ok {
		return failf("read-prefix", "%s: received bytes are not a prefix of the expected sectors (diff at +%d)", what, d)
	}
	return nil
}

// ---- mutating requests ----------------------------------------------------

func (m *Model) create(c *Conn, r Req, pr *pre, what string) error {
	real, clean, usable := pr.real, pr.clean, pr.usable
	before, berr := pr.lfi, pr.lerr
	if berr == nil && before.Mode()&os.ModeSymlink != 0 {
		before, berr = pr.fi, pr.serr
	}
	res, err := m.result32(c, what)
	if err != nil {
		return err
	}
	if res != 0 && res != -1 {
		return failf("result-code", "%s: result %d", what, res)
	}
	if !m.AllowWrite {
		if res != -1 {
			return failf("write-gate", "%s accepted while writing is disabled", what)
		}
		return nil
	}
	vk, _ := VirtualKind(clean)
	m.wo = woState{}
	if vk != "" {
		if res != -1 {
			// a real directory may literally carry this name (below a directory named like the prefix): then the
			// request is the "create of a directory closes the write file" form, which writes nothing
			if after, aerr := os.Stat(real); usable && berr == nil && before.IsDir() && aerr == nil && after.IsDir() {
				return nil
			}
			return failf("virtual-readonly", "%s: create through a virtual image path succeeded", what)
		}
		return nil
	}
	after, aerr := os.Stat(real)
	if !usable {
		aerr = os.ErrNotExist
	}
	if res == 0 {
		switch {
		case berr == nil && before.IsDir():
			// "path is a directory -> closing file": success, nothing opened
			if aerr != nil || !after.IsDir() {
				return failf("create-effect", "%s: directory %s disappeared", what, clean)
			}
		default:
			if aerr != nil || !after.Mode().IsRegular() {
				return failf("create-effect", "%s reported success but %s is not a regular file", what, clean)
			}
			if after.Size() != 0 {
				return failf("create-effect", "%s reported success but %s has %d bytes (not truncated)", what, clean, after.Size())
			}
			// whatever else was open on this path now sees another (or a truncated) file; the new write file itself
			// is fully known: empty, every write appends
			m.touched(real)
			m.wo = woState{open: true, path: real}
		}
		return nil
	}
	// failure must be truthful: a creatable target may not be refused
	creatable := usable && pr.parentIsDir && (berr != nil && os.IsNotExist(berr) || berr == nil && before.Mode().IsRegular()) && len(filepath.Base(real)) <= 255
	if creatable {
		return failf("create-truth", "%s refused although %s is creatable (parent exists, target %v)", what, clean, describe(before, berr))
	}
	if berr != nil && aerr == nil {
		return failf("create-truth", "%s reported failure but %s now exists", what, clean)
	}
	return nil
}

func describe(fi os.FileInfo, err error) string {
	if err != nil {
		return "missing"
	}
	if fi.IsDir() {
		return "directory"
	}
	return fmt.Sprintf("file(%d)", fi.Size())
}

func (m *Model) write(c *Conn, r Req, pr *pre, what string) error {
	before := pr.woSize
	res, err := m.result32(c, what)
	if err != nil {
		return err
	}
	if !m.AllowWrite || !m.wo.open {
		if res != -1 {
			return failf("write-gate", "%s without a writable file answered %d", what, res)
		}
		return nil
	}
	if res == -1 && m.lenient() {
		m.wo.detached = true // a partial write may have happened: content is no longer predictable
		return nil
	}
	if int64(res) != int64(r.N) {
		return failf("write-count", "%s answered %d", what, res)
	}
	if r.N > 0 {
		det := m.wo.detached
		m.touched(m.wo.path)
		m.wo.detached = det
	}
	if m.wo.detached {
		return nil
	}
	fi, err := os.Stat(m.wo.path)
	if err != nil {
		return failf("write-effect", "%s: target vanished: %v", what, err)
	}
	if before >= 0 && fi.Size() != before+int64(r.N) {
		return failf("write-effect", "%s: file grew from %d to %d", what, before, fi.Size())
	}
	if r.N > 0 && before >= 0 {
		f, err := os.Open(m.wo.path)
		if err == nil {
			buf := make([]byte, r.N)
			_, _ = f.ReadAt(buf, before)
			f.Close()
			if !bytes.Equal(buf, r.Payload()) {
				return failf("write-effect", "%s: stored bytes differ from the payload at +%d", what, firstDiff(buf, r.Payload()))
			}
			m.did("uploaded bytes compared with the file")
		}
	}
	return nil
}

func (m *Model) remove(c *Conn, r Req, pr *pre, what string) error {
	real, clean, usable := pr.real, pr.clean, pr.usable
	before, berr := pr.lfi, pr.lerr
	snapBefore := pr.snap
	res, err := m.result32(c, what)
	if err != nil {
		return err
	}
	if res != 0 && res != -1 {
		return failf("result-code", "%s: result %d", what, res)
	}
	if !m.AllowWrite {
		if res != -1 {
			return failf("write-gate", "%s accepted while writing is disabled", what)
		}
		return nil
	}
	_, aerr := os.Lstat(real)
	if !usable {
		aerr = os.ErrNotExist
	}
	snapAfter, _ := Snapshot(m.snapDir())
	rel, _ := filepath.Rel(m.snapDir(), real)
	if res == 0 {
		if berr != nil {
			return failf("remove-truth", "%s reported success for missing %s", what, clean)
		}
		if aerr == nil {
			return failf("remove-truth", "%s reported success but %s still exists", what, clean)
		}
		// exactly the named effect: delete removes files (and links), rmdir removes directories
		if r.Op == "DELETE" && before.IsDir() {
			return failf("remove-named-effect", "%s removed the directory %s", what, clean)
		}
		if r.Op == "RMDIR" && !before.IsDir() {
			return failf("remove-named-effect", "%s removed %s, which is no directory", what, clean)
		}
		// nothing else changed
		m.touched(real)
		delete(snapBefore, rel)
		if d := DiffSnap(snapBefore, snapAfter, true); d != "" {
			return failf("remove-effect", "%s changed more than its target: %s", what, d)
		}
		return nil
	}
	if d := DiffSnap(snapBefore, snapAfter, false); d != "" {
		return failf("remove-truth", "%s reported failure but the tree changed: %s", what, d)
	}
	// a removable target with matching kind may not be refused
	if berr == nil && real != m.Root {
		isDir := before.IsDir()
		empty := pr.dirEmpty
		if r.Op == "DELETE" && !isDir {
			return failf("remove-truth", "%s refused although %s is an existing non-directory", what, clean)
		}
		if r.Op == "RMDIR" && isDir && empty {
			return failf("remove-truth", "%s refused although %s is an empty directory", what, clean)
		}
	}
	return nil
}

func (m *Model) mkdir(c *Conn, r Req, pr *pre, what string) error {
	real, clean, usable := pr.real, pr.clean, pr.usable
	berr := pr.lerr
	snapBefore := pr.snap
	res, err := m.result32(c, what)
	if err != nil {
		return err
	}
	if res != 0 && res != -1 {
		return failf("result-code", "%s: result %d", what, res)
	}
	if !m.AllowWrite {
		if res != -1 {
			return failf("write-gate", "%s accepted while writing is disabled", what)
		}
		return nil
	}
	snapAfter, _ := Snapshot(m.snapDir())
	rel, _ := filepath.Rel(m.snapDir(), real)
	if res == 0 {
		fi, aerr := os.Lstat(real)
		if aerr != nil || !fi.IsDir() {
			return failf("mkdir-truth", "%s reported success but %s is not a directory", what, clean)
		}
		if berr == nil {
			return failf("mkdir-truth", "%s reported success but %s existed before", what, clean)
		}
		m.touched(real)
		delete(snapAfter, rel)
		if d := DiffSnap(snapBefore, snapAfter, true); d != "" {
			return failf("mkdir-effect", "%s changed more than its target: %s", what, d)
		}
		return nil
	}
	if d := DiffSnap(snapBefore, snapAfter, false); d != "" {
		return failf("mkdir-truth", "%s reported failure but the tree changed: %s", what, d)
	}
	if usable && berr != nil && os.IsNotExist(berr) && pr.parentIsDir && len(filepath.Base(real)) <= 255 && len(real) < 4000 {
		return failf("mkdir-truth", "%s refused although %s is creatable", what, clean)
	}
	return nil
}

// touched: a successful mutation inside the currently open directory makes the
// remaining listing unpredictable (generator simplification, see DESIGN App. C).
func (m *Model) touched(real string) {
	// the same file under another name (opened through a symbolic link, changed through its own name, or the
	// other way round) is the same file
	alias := func(p string) bool {
		a, err1 := os.Stat(p)
		b, err2 := os.Stat(real)
		return err1 == nil && err2 == nil && os.SameFile(a, b)
	}
	if m.wo.open && (m.wo.path == real || strings.HasPrefix(m.wo.path, real+"/") || alias(m.wo.path)) {
		m.wo.detached = true
	}
	if rp := m.ro.path; rp != "" && m.ro.kind == roObj && (rp == real || strings.HasPrefix(rp, real+"/") || alias(rp)) {
		m.ro = roState{kind: roUnknown}
	}
	if (m.cwd.kind == cwdOpen || m.cwd.kind == cwdExhausted) && (filepath.Dir(real) == m.cwd.dir || real == m.cwd.dir || strings.HasPrefix(m.cwd.dir, real+"/")) {
		m.cwd = cwdState{kind: cwdUnknown}
	}
}

// Local performs a harness-side action on the served tree (session steps whose Op starts with "LOCAL_"):
//
//	LOCAL_SWAP    Path <-> Raw: the two objects exchange their names by renames (an image replaced under its name, a
//	              directory replaced by another directory or by a file)
//	LOCAL_REMOVE  Path is removed with everything below it
//
// Whatever the connection holds open on the affected paths becomes unpredictable until it is opened again.
func (m *Model) Local(r Req) error {
	m.tr("%s(%s,%s)", r.Op, string(r.Path), string(r.Raw))
	switch r.Op {
	case "LOCAL_SWAP":
		a, _, _ := m.Resolve(string(r.Path))
		b, _, _ := m.Resolve(string(r.Raw))
		tmp := a + ".swap-tmp"
		if err := os.Rename(a, tmp); err != nil {
			return err
		}
		if err := os.Rename(b, a); err != nil {
			return err
		}
		if err := os.Rename(tmp, b); err != nil {
			return err
		}
		m.touched(a)
		m.touched(b)
		return nil
	case "LOCAL_REMOVE":
		a, _, _ := m.Resolve(string(r.Path))
		if a == "" || a == m.Root {
			return fmt.Errorf("LOCAL_REMOVE of the root")
		}
		if err := os.RemoveAll(a); err != nil {
			return err
		}
		m.touched(a)
		return nil
	}
	return fmt.Errorf("unknown local action %q", r.Op)
}

// Dump renders the trace for failure messages.
func (m *Model) Dump() string {
	t := m.Trace
	if len(t) > 30 {
		t = t[len(t)-30:]
	}
	return strings.Join(t, " ; ")
}

var _ = sort.Strings

// MultiObj is an object whose content is one of several admissible byte strings (don't-cares).
type MultiObj [][]byte

func (m MultiObj) Size() int64                            { return int64(len(m[0])) }
func (m MultiObj) ReadAt(off int64, n int) ([]byte, bool) { return BytesObj(m[0]).ReadAt(off, n) }

// Match reports whether got equals the slice at off of any candidate.
func (m MultiObj) Match(off int64, got []byte) bool {
	for _, c := range m {
		if e, _ := BytesObj(c).ReadAt(off, len(got)); bytes.Equal(e, got) {
			return true
		}
	}
	return false
}

// objMatch compares received bytes with the object's expected bytes; ok=false when they differ.
func objMatch(o Obj, off int64, got []byte) (ok bool, diffAt int) {
	if mm, is := o.(interface{ Match(int64, []byte) bool }); is {
		if mm.Match(off, got) {
			return true, 0
		}
		e, _ := o.ReadAt(off, len(got))
		return false, firstDiff(e, got)
	}
	exp, known := o.ReadAt(off, len(got))
	if !known {
		return true, 0
	}
	if bytes.Equal(exp, got) {
		return true, 0
	}
	return false, firstDiff(exp, got)
}

// BytesObj is an object whose full expected content is known.
type BytesObj []byte

func (b BytesObj) Size() int64 { return int64(len(b)) }
func (b BytesObj) ReadAt(off int64, n int) ([]byte, bool) {
	if off >= int64(len(b)) {
		return nil, true
	}
	end := off + int64(n)
	if end > int64(len(b)) {
		end = int64(len(b))
	}
	return b[off:end], true
}
