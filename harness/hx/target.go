package hx

import (
	"bufio"
	"bytes"
	"fmt"
	"io"
	"log/slog"
	"net"
	"os"
	"os/exec"
	"path/filepath"
	"regexp"
	"strings"
	"sync"
	"sync/atomic"
	"syscall"
	"time"

	"github.com/spf13/afero"

	"github.com/xakep666/ps3netsrv-go/internal/copier"
	"github.com/xakep666/ps3netsrv-go/internal/handler"
	pfs "github.com/xakep666/ps3netsrv-go/pkg/fs"
	"github.com/xakep666/ps3netsrv-go/pkg/server"
)

func init() {
	// the handler logs through slog.Default
	slog.SetDefault(slog.New(slog.NewTextHandler(io.Discard, &slog.HandlerOptions{Level: slog.LevelError + 10})))
}

// InfraError marks a failure of the harness's own infrastructure (ports, scratch space): never a violation.
type InfraError struct{ Err error }

func (e *InfraError) Error() string { return "harness infrastructure: " + e.Err.Error() }
func (e *InfraError) Unwrap() error { return e.Err }

var loopCounter uint32

// NextLoopAddr rotates through 127.<16+shard>.x.y: thousands of sessions per minute would otherwise exhaust
// the ephemeral ports of a single address pair with connections in TIME_WAIT.
func NextLoopAddr() string {
	si, _ := Shard()
	n := atomic.AddUint32(&loopCounter, 1)
	// mix in the pid so that different checks running at the same time spread out as well
	b1 := 16 + (si+os.Getpid())%200
	return fmt.Sprintf("127.%d.%d.%d", b1, 1+(n/250)%250, 1+n%250)
}

// Target is something that speaks the protocol on Addr.
type Target struct {
	Addr  string
	close func()
}

func NewTarget(addr string, closeFn func()) *Target { return &Target{Addr: addr, close: closeFn} }

func (t *Target) Close() {
	if t.close != nil {
		t.close()
	}
}

type InprocOpts struct {
	AllowWrite  bool
	ReadTimeout time.Duration
	BufferSize  int64
	// WrapListener lets a check compose listener wrappers like cmd/ does.
	WrapListener func(net.Listener) net.Listener

	network, laddr string
}

// StartInprocFs serves the real server+handler over base (wrapped in pkg/fs.FS
// exactly like cmd/ps3netsrv-go/server.go does).
func StartInprocFs(base afero.Fs, o InprocOpts) (*Target, error) {
	network, laddr := "tcp4", NextLoopAddr()+":0"
	if o.network != "" {
		network, laddr = o.network, o.laddr
	}
	var ln net.Listener
	var err error
	for try := 0; try < 20; try++ {
		ln, err = net.Listen(network, laddr)
		if err == nil {
			break
		}
		// ephemeral ports of one address exhausted (TIME_WAIT): move on to the next loopback address
		if o.network == "" {
			laddr = NextLoopAddr() + ":0"
		}
		time.Sleep(20 * time.Millisecond)
	}
	if err != nil {
		return nil, &InfraError{Err: err}
	}
	addr := ln.Addr().String()
	if o.WrapListener != nil {
		ln = o.WrapListener(ln)
	}
	bs := o.BufferSize
	if bs == 0 {
		bs = 64 * 1024
	}
	var cop *copier.Copier
	if bs > 0 {
		cop = copier.NewPooledCopier(bs)
	} else {
		cop = copier.NewCopier()
	}
	s := server.Server[handler.State]{
		Handler:     &handler.Handler{Fs: &pfs.FS{Fs: base}, AllowWrite: o.AllowWrite, Copier: cop},
		ReadTimeout: o.ReadTimeout,
		Logger:      slog.New(slog.NewTextHandler(io.Discard, &slog.HandlerOptions{Level: slog.LevelError + 10})),
	}
	go func() { _ = s.Serve(ln) }()
	return &Target{Addr: addr, close: func() { _ = ln.Close() }}, nil
}

// StartInprocListen is StartInproc on a chosen network/address (e.g. tcp6 [::1]:0).
func StartInprocListen(network, laddr, root string, o InprocOpts) (*Target, error) {
	o.network, o.laddr = network, laddr
	return StartInprocFs(afero.NewBasePathFs(afero.NewOsFs(), root), o)
}

// StartInproc serves a directory through BasePathFs(OsFs, root) like the binary.
func StartInproc(root string, o InprocOpts) (*Target, error) {
	return StartInprocFs(afero.NewBasePathFs(afero.NewOsFs(), root), o)
}

// ---- real binary ---------------------------------------------------------

// BinPath is the CLI built by the driver from /repo's working tree.
func BinPath() string { return os.Getenv("VERIF_BIN") }

type BinOpts struct {
	Args   []string // full argument list (subcommand first)
	Env    []string // extra KEY=VALUE (base env is minimal and clean)
	Dir    string   // cwd
	NoAddr bool     // do not wait for the listening line
	Home   string
	// VLimitKB sets ulimit -v for the process (0 = none)
	VLimitKB int
	// NoFile sets ulimit -n for the process (0 = inherited)
	NoFile int
	// Uid runs the process as this user and group id (0 = as the harness; needs the harness to be root)
	Uid uint32
}

type Bin struct {
	Cmd    *exec.Cmd
	Addr   string
	mu     sync.Mutex
	out    bytes.Buffer
	errb   bytes.Buffer
	done   chan struct{}
	waitEr error
}

var listenRe = regexp.MustCompile(`Listening\.\.\..*?addr[=:"\s\[]+([^\s"\]]+)`)

type lockedWriter struct {
	mu *sync.Mutex
	b  *bytes.Buffer
}

func (w lockedWriter) Write(p []byte) (int, error) {
	w.mu.Lock()
	defer w.mu.Unlock()
	return w.b.Write(p)
}

// StartBin starts the real CLI. For "server" it waits until the port answers.
func StartBin(o BinOpts) (*Bin, error) {
	bin := BinPath()
	if bin == "" {
		return nil, fmt.Errorf("VERIF_BIN not set")
	}
	var cmd *exec.Cmd
	if o.VLimitKB > 0 || o.NoFile > 0 {
		sh := ""
		if o.VLimitKB > 0 {
			sh += fmt.Sprintf("ulimit -v %d; ", o.VLimitKB)
		}
		if o.NoFile > 0 {
			sh += fmt.Sprintf("ulimit -n %d; ", o.NoFile)
		}
		sh += "exec \"$0\" \"$@\""
		cmd = exec.Command("/bin/sh", append([]string{"-c", sh, bin}, o.Args...)...)
	} else {
		cmd = exec.Command(bin, o.Args...)
	}
	home := o.Home
	if home == "" {
		home = "/nonexistent-home"
	}
	cmd.Env = append([]string{"PATH=/usr/bin:/bin", "HOME=" + home, "GOMAXPROCS=4"}, o.Env...)
	cmd.Dir = o.Dir
	b := &Bin{Cmd: cmd, done: make(chan struct{})}
	cmd.Stdout = lockedWriter{&b.mu, &b.out}
	cmd.Stderr = lockedWriter{&b.mu, &b.errb}
	cmd.SysProcAttr = &syscall.SysProcAttr{Pdeathsig: syscall.SIGKILL}
	if o.Uid != 0 {
		cmd.SysProcAttr.Credential = &syscall.Credential{Uid: o.Uid, Gid: o.Uid}
	}
	if err := cmd.Start(); err != nil {
		return nil, err
	}
	go func() { b.waitEr = cmd.Wait(); close(b.done) }()
	return b, nil
}

// WaitListening dials addr until it accepts or the process exits.
func (b *Bin) WaitListening(addr string, d time.Duration) error {
	deadline := time.Now().Add(d)
	for time.Now().Before(deadline) {
		select {
		case <-b.done:
			return fmt.Errorf("process exited: %v; stderr: %s", b.waitEr, b.Stderr())
		default:
		}
		// the port must be held by *this* process: with parallel shards another server may have
		// taken the port between FreePort and our bind (then ours exits with "address in use")
		if _, port, err := net.SplitHostPort(addr); err == nil && pidListensOn(b.Cmd.Process.Pid, port) {
			c, err := net.DialTimeout("tcp", addr, 500*time.Millisecond)
			if err == nil {
				_ = c.Close()
				b.Addr = addr
				return nil
			}
		}
		time.Sleep(15 * time.Millisecond)
	}
	return fmt.Errorf("not listening on %s after %v", addr, d)
}

// WaitOwnsPort waits until the process holds a listening socket on addr's port, without connecting
// (a probe connection could consume an admission slot or be filtered).
func (b *Bin) WaitOwnsPort(addr string, d time.Duration) error {
	_, port, err := net.SplitHostPort(addr)
	if err != nil {
		return err
	}
	deadline := time.Now().Add(d)
	for time.Now().Before(deadline) {
		select {
		case <-b.done:
			return fmt.Errorf("process exited: %v; stderr: %s", b.waitEr, b.Stderr())
		default:
		}
		if pidListensOn(b.Cmd.Process.Pid, port) {
			b.Addr = addr
			return nil
		}
		time.Sleep(10 * time.Millisecond)
	}
	return fmt.Errorf("not listening on %s after %v", addr, d)
}

func (b *Bin) Exited() bool {
	select {
	case <-b.done:
		return true
	default:
		return false
	}
}

// Wait waits for exit, returns exit code (-1 signal) .
func (b *Bin) Wait(d time.Duration) (int, bool) {
	select {
	case <-b.done:
		return b.Cmd.ProcessState.ExitCode(), true
	case <-time.After(d):
		return 0, false
	}
}

func (b *Bin) Stdout() string { b.mu.Lock(); defer b.mu.Unlock(); return b.out.String() }
func (b *Bin) StdoutBytes() []byte {
	b.mu.Lock()
	defer b.mu.Unlock()
	return append([]byte(nil), b.out.Bytes()...)
}
func (b *Bin) Stderr() string { b.mu.Lock(); defer b.mu.Unlock(); return b.errb.String() }

func (b *Bin) Kill() {
	if b.Cmd.Process != nil {
		_ = b.Cmd.Process.Kill()
	}
	<-b.done
}

// Crashed reports a Go runtime crash signature in the process output.
func (b *Bin) Crashed() (bool, string) {
	for _, s := range []string{b.Stderr(), b.Stdout()} {
		for _, sig := range []string{"panic:", "fatal error:", "goroutine 1 [", "runtime: out of memory", "SIGSEGV"} {
			if i := strings.Index(s, sig); i >= 0 {
				e := i + 1500
				if e > len(s) {
					e = len(s)
				}
				return true, s[i:e]
			}
		}
	}
	return false, ""
}

// FDCount counts open descriptors of the process (Linux /proc).
func (b *Bin) FDCount() int {
	pid := b.Cmd.Process.Pid
	// with ulimit wrapper "exec" keeps the pid
	ents, err := os.ReadDir(fmt.Sprintf("/proc/%d/fd", pid))
	if err != nil {
		return -1
	}
	return len(ents)
}

// FDTargets lists the link targets of the open descriptors.
func (b *Bin) FDTargets() []string {
	pid := b.Cmd.Process.Pid
	dir := fmt.Sprintf("/proc/%d/fd", pid)
	ents, err := os.ReadDir(dir)
	if err != nil {
		return nil
	}
	var out []string
	for _, e := range ents {
		if l, err := os.Readlink(filepath.Join(dir, e.Name())); err == nil {
			out = append(out, l)
		}
	}
	return out
}

// pidListensOn: does a listening TCP socket on the port belong to the process (Linux /proc)?
func pidListensOn(pid int, port string) bool {
	var pn int
	fmt.Sscanf(port, "%d", &pn)
	hexPort := fmt.Sprintf(":%04X", pn)
	inodes := map[string]bool{}
	for _, f := range []string{"/proc/net/tcp", "/proc/net/tcp6"} {
		data, err := os.ReadFile(f)
		if err != nil {
			continue
		}
		for _, line := range strings.Split(string(data), "\n")[1:] {
			fs := strings.Fields(line)
			if len(fs) > 9 && strings.HasSuffix(fs[1], hexPort) && fs[3] == "0A" {
				inodes[fs[9]] = true
			}
		}
	}
	if len(inodes) == 0 {
		return false
	}
	dir := fmt.Sprintf("/proc/%d/fd", pid)
	ents, err := os.ReadDir(dir)
	if err != nil {
		return false
	}
	for _, e := range ents {
		l, err := os.Readlink(filepath.Join(dir, e.Name()))
		if err == nil && strings.HasPrefix(l, "socket:[") && inodes[strings.TrimSuffix(strings.TrimPrefix(l, "socket:["), "]")] {
			return true
		}
	}
	return false
}

// PidListensOn is the exported form.
func PidListensOn(pid int, port string) bool { return pidListensOn(pid, port) }

// FreePort picks a currently free loopback port.
func FreePort() int {
	ln, err := net.Listen("tcp4", "127.0.0.1:0")
	if err != nil {
		return 0
	}
	p := ln.Addr().(*net.TCPAddr).Port
	_ = ln.Close()
	return p
}

// StartServerBin starts "server" on a free loopback port with the given extra
// args/env, retrying on port collisions.
func StartServerBin(root string, extra []string, env []string, dir string) (*Bin, error) {
	return StartServerBinOpts(root, extra, env, dir, 0)
}

// StartServerBinOpts: with an address-space limit (ulimit -v, KB) when vlimitKB > 0.
func StartServerBinOpts(root string, extra []string, env []string, dir string, vlimitKB int) (*Bin, error) {
	return StartServerBinLimits(root, extra, env, dir, vlimitKB, 0)
}

// StartServerBinLimits: address-space limit and descriptor limit (ulimit -n) when > 0.
func StartServerBinLimits(root string, extra []string, env []string, dir string, vlimitKB, noFile int) (*Bin, error) {
	var last error
	for try := 0; try < 5; try++ {
		port := FreePort()
		addr := fmt.Sprintf("127.0.0.1:%d", port)
		args := []string{"server", "--listen-addr=" + addr}
		if root != "" {
			args = append(args, "--root="+root)
		}
		args = append(args, extra...)
		b, err := StartBin(BinOpts{Args: args, Env: env, Dir: dir, VLimitKB: vlimitKB, NoFile: noFile})
		if err != nil {
			return nil, err
		}
		if err := b.WaitListening(addr, 10*time.Second); err != nil {
			last = err
			b.Kill()
			if strings.Contains(b.Stderr()+b.Stdout(), "address already in use") {
				continue
			}
			return nil, err
		}
		return b, nil
	}
	return nil, last
}

var _ = bufio.NewReader
var _ = listenRe
