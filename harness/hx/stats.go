// Package hx holds the shared machinery of the property checks: run statistics
// and evidence, case persistence (replay files), the wire client, targets
// (in-process server / real binary), tree generation and the harness's own
// view of the filesystem.
package hx

import (
	"encoding/json"
	"fmt"
	"hash/fnv"
	"os"
	"path/filepath"
	"sort"
	"strconv"
	"strings"
	"sync"
)

// Stats collects what one test-binary run (one shard) actually explored.
type Stats struct {
	mu           sync.Mutex
	Property     string            `json:"property"`
	Unit         string            `json:"unit"`
	Evaluations  int               `json:"evaluations"`
	Labels       map[string]int    `json:"labels"`
	NonTrivial   map[string]int    `json:"nontrivial"` // key hash -> count
	Samples      []json.RawMessage `json:"samples"`
	Excluded     map[string]int    `json:"excluded"`
	Inconclusive int               `json:"inconclusive"`
	InfraErrors  int               `json:"infra_errors"`
	Exhaustive   []string          `json:"exhaustive,omitempty"`
	Notes        []string          `json:"notes,omitempty"`
	sampleSeen   int
}

func NewStats(property, unit string) *Stats {
	return &Stats{Property: property, Unit: unit, Labels: map[string]int{}, NonTrivial: map[string]int{}, Excluded: map[string]int{}}
}

const maxSamples = 6

// Eval counts one executed case.
func (s *Stats) Eval() {
	s.mu.Lock()
	s.Evaluations++
	s.mu.Unlock()
}

func (s *Stats) EvalN(n int) {
	s.mu.Lock()
	s.Evaluations += n
	s.mu.Unlock()
}

// Label counts a class of cases (distribution of the generator).
func (s *Stats) Label(labels ...string) {
	s.mu.Lock()
	for _, l := range labels {
		s.Labels[l]++
	}
	s.mu.Unlock()
}

// NT records a non-trivial case by its distinctness key.
func (s *Stats) NT(key string) {
	h := fnv.New64a()
	h.Write([]byte(key))
	k := strconv.FormatUint(h.Sum64(), 16)
	s.mu.Lock()
	s.NonTrivial[k]++
	s.mu.Unlock()
}

// Sample keeps a few rendered cases (deterministic reservoir: first few, then every 2^k-th).
func (s *Stats) Sample(v any) {
	s.mu.Lock()
	defer s.mu.Unlock()
	s.sampleSeen++
	n := s.sampleSeen
	if len(s.Samples) >= maxSamples && n&(n-1) != 0 {
		return
	}
	b, err := json.Marshal(v)
	if err != nil {
		b, _ = json.Marshal(fmt.Sprintf("%+v", v))
	}
	if len(b) > 4000 {
		b, _ = json.Marshal(string(b[:4000]) + "...(truncated)")
	}
	if len(s.Samples) < maxSamples {
		s.Samples = append(s.Samples, b)
	} else {
		s.Samples[n%maxSamples] = b
	}
}

func (s *Stats) Exclude(name string) {
	s.mu.Lock()
	s.Excluded[name]++
	s.mu.Unlock()
}

func (s *Stats) Inconcl() {
	s.mu.Lock()
	s.Inconclusive++
	s.mu.Unlock()
}

// Infra counts a case that could not be judged because the harness's own infrastructure failed;
// returns true when there were so many that the run itself is inconclusive.
func (s *Stats) Infra(err error) bool {
	s.mu.Lock()
	defer s.mu.Unlock()
	s.InfraErrors++
	if len(s.Notes) < 5 {
		s.Notes = append(s.Notes, "infrastructure error (case not judged): "+err.Error())
	}
	return s.InfraErrors > 25 && s.InfraErrors*10 > s.Evaluations
}

func (s *Stats) MarkExhaustive(what string) {
	s.mu.Lock()
	s.Exhaustive = append(s.Exhaustive, what)
	s.mu.Unlock()
}

func (s *Stats) Note(n string) {
	s.mu.Lock()
	s.Notes = append(s.Notes, n)
	s.mu.Unlock()
}

// OutDir is where this shard writes stats / failures (set by the driver).
func OutDir() string {
	d := os.Getenv("VERIF_OUT")
	if d == "" {
		d = filepath.Join(os.TempDir(), "verif-adhoc")
	}
	_ = os.MkdirAll(d, 0o755)
	return d
}

func ShardTag() string {
	t := os.Getenv("VERIF_SHARD_TAG")
	if t == "" {
		t = "s0"
	}
	return t
}

// Flush writes the stats file for the driver to merge.
func (s *Stats) Flush() {
	s.mu.Lock()
	defer s.mu.Unlock()
	b, _ := json.Marshal(s)
	name := fmt.Sprintf("stats-%s-%s-%s.json", s.Property, s.Unit, ShardTag())
	_ = os.WriteFile(filepath.Join(OutDir(), name), b, 0o644)
}

// Failure is the replay file format: self-contained, independent of rapid.
type Failure struct {
	Property string          `json:"property"`
	Unit     string          `json:"unit"`
	Clause   string          `json:"clause"`
	Message  string          `json:"message"`
	Case     json.RawMessage `json:"case"`
}

// SaveFailure overwrites the failure file of this (property, unit, shard); rapid's
// last failing execution is the shrunk one, so the surviving file is minimal.
func SaveFailure(property, unit, clause, msg string, c any) string {
	cb, err := json.Marshal(c)
	if err != nil {
		cb, _ = json.Marshal(fmt.Sprintf("%+v", c))
	}
	b, _ := json.MarshalIndent(Failure{Property: property, Unit: unit, Clause: clause, Message: msg, Case: cb}, "", " ")
	p := filepath.Join(OutDir(), fmt.Sprintf("failure-%s-%s-%s.json", property, unit, ShardTag()))
	_ = os.WriteFile(p, b, 0o644)
	return p
}

// SaveCurrent records the case about to be executed, so that a process death
// (panic in a server goroutine) still leaves a reproduction behind.
func SaveCurrent(property, unit string, c any) {
	cb, err := json.Marshal(c)
	if err != nil {
		return
	}
	b, _ := json.Marshal(Failure{Property: property, Unit: unit, Clause: "process-died", Message: "test process died while running this case", Case: cb})
	p := filepath.Join(OutDir(), fmt.Sprintf("current-%s-%s-%s.json", property, unit, ShardTag()))
	_ = os.WriteFile(p, b, 0o644)
}

func ClearCurrent(property, unit string) {
	_ = os.Remove(filepath.Join(OutDir(), fmt.Sprintf("current-%s-%s-%s.json", property, unit, ShardTag())))
}

// LoadReplay loads a replay file when the run is a replay of one case.
func LoadReplay(property, unit string, into any) (bool, error) {
	p := os.Getenv("VERIF_REPLAY")
	if p == "" {
		return false, nil
	}
	b, err := os.ReadFile(p)
	if err != nil {
		return true, err
	}
	var f Failure
	if err := json.Unmarshal(b, &f); err != nil {
		return true, err
	}
	if f.Property != property || f.Unit != unit {
		return false, nil
	}
	return true, json.Unmarshal(f.Case, into)
}

// Fail is the error type carrying the oracle clause that failed.
type Fail struct {
	Clause string
	Msg    string
}

func (f *Fail) Error() string { return f.Clause + ": " + f.Msg }

func Failf(clause, format string, a ...any) *Fail {
	return &Fail{Clause: clause, Msg: fmt.Sprintf(format, a...)}
}

// Tier returns quick or thorough.
func Tier() string {
	if os.Getenv("VERIF_TIER") == "thorough" {
		return "thorough"
	}
	return "quick"
}

func Thorough() bool { return Tier() == "thorough" }

// Shard returns (index, count) for enumerations split over processes.
func Shard() (int, int) {
	i, _ := strconv.Atoi(os.Getenv("VERIF_SHARD_I"))
	n, _ := strconv.Atoi(os.Getenv("VERIF_SHARD_N"))
	if n <= 0 {
		return 0, 1
	}
	return i, n
}

// Seed is VERIF_SEED (for the non-rapid enumerations that sample).
func Seed() uint64 {
	v, _ := strconv.ParseUint(os.Getenv("VERIF_SEED"), 10, 64)
	return v
}

// EnvInt reads an integer knob set by the driver.
func EnvInt(name string, def int) int {
	if v, err := strconv.Atoi(os.Getenv(name)); err == nil {
		return v
	}
	return def
}

// ---- known findings / exclusions ---------------------------------------

type Finding struct {
	Status    string `json:"status"` // open | fixed
	Property  string `json:"property"`
	ID        string `json:"id"`
	What      string `json:"what"`
	Replay    string `json:"replay,omitempty"`
	Clause    string `json:"clause,omitempty"`
	Exclusion string `json:"exclusion,omitempty"`
	Commit    string `json:"commit,omitempty"`
}

var (
	findingsOnce sync.Once
	findings     []Finding
)

func Findings() []Finding {
	findingsOnce.Do(func() {
		p := os.Getenv("VERIF_KNOWN")
		if p == "" {
			p = "/verif/known_findings.txt"
		}
		b, err := os.ReadFile(p)
		if err != nil {
			return
		}
		for _, line := range splitLines(b) {
			l := strings.TrimSpace(string(line))
			if !strings.HasPrefix(l, "finding:") {
				continue // "fixed:" entries suppress nothing
			}
			body, what, _ := strings.Cut(strings.TrimPrefix(l, "finding:"), "::")
			f := Finding{Status: "open", What: strings.TrimSpace(what)}
			for _, tok := range strings.Fields(body) {
				k, v, ok := strings.Cut(tok, "=")
				if !ok {
					continue
				}
				switch k {
				case "property":
					f.Property = v
				case "id":
					f.ID = v
				case "exclusion":
					f.Exclusion = v
				case "replay":
					f.Replay = v
				case "clause":
					f.Clause = v
				}
			}
			if f.ID != "" {
				findings = append(findings, f)
			}
		}
	})
	return findings
}

func splitLines(b []byte) [][]byte {
	var out [][]byte
	start := 0
	for i := 0; i <= len(b); i++ {
		if i == len(b) || b[i] == '\n' {
			if i > start {
				out = append(out, b[start:i])
			}
			start = i + 1
		}
	}
	return out
}

// Excluded reports whether the named generator exclusion is active, i.e. an
// open known finding names it. VERIF_NOEXCL=1 switches all exclusions off
// (used when replaying a finding itself).
func Excluded(name string) bool {
	if os.Getenv("VERIF_NOEXCL") == "1" {
		return false
	}
	for _, f := range Findings() {
		if f.Status == "open" && f.Exclusion == name {
			return true
		}
	}
	return false
}

// SortedKeys is a helper for deterministic iteration.
func SortedKeys[V any](m map[string]V) []string {
	ks := make([]string, 0, len(m))
	for k := range m {
		ks = append(ks, k)
	}
	sort.Strings(ks)
	return ks
}

type Fataler interface {
	Fatalf(format string, args ...any)
}

// Report fails the test with a saved replay file.
func Report(t Fataler, property, unit string, c any, err error) {
	clause := "oracle"
	if f, ok := err.(*Fail); ok {
		clause = f.Clause
	}
	p := SaveFailure(property, unit, clause, err.Error(), c)
	t.Fatalf("FAIL property=%s unit=%s clause=%s file=%s: %v", property, unit, clause, p, err)
}

func os_replayOther() bool { return os.Getenv("VERIF_REPLAY") != "" }
