package hx

import (
	"encoding/binary"
	"encoding/json"
	"errors"
	"fmt"
	"io"
	"net"
	"os"
	"strconv"
	"strings"
	"sync/atomic"
	"time"
)

// Opcodes, from the comments of pkg/proto/types.go (own codec; pkg/proto is not imported).
const (
	OpOpenFile   = 0x1224
	OpReadCrit   = 0x1225
	OpReadCD     = 0x1226
	OpReadFile   = 0x1227
	OpCreate     = 0x1228
	OpWrite      = 0x1229
	OpOpenDir    = 0x122A
	OpReadEntry  = 0x122B
	OpDelete     = 0x122C
	OpMkdir      = 0x122D
	OpRmdir      = 0x122E
	OpReadEntry2 = 0x122F
	OpStat       = 0x1230
	OpDirSize    = 0x1231
	OpReadDir    = 0x1232
)

var OpNames = map[int]string{
	OpOpenFile: "OPEN_FILE", OpReadCrit: "READ_CRIT", OpReadCD: "READ_CD", OpReadFile: "READ_FILE",
	OpCreate: "CREATE", OpWrite: "WRITE", OpOpenDir: "OPEN_DIR", OpReadEntry: "READ_ENTRY",
	OpDelete: "DELETE", OpMkdir: "MKDIR", OpRmdir: "RMDIR", OpReadEntry2: "READ_ENTRY2",
	OpStat: "STAT", OpDirSize: "DIR_SIZE", OpReadDir: "READ_DIR",
}

var OpByName = func() map[string]int {
	m := map[string]int{}
	for k, v := range OpNames {
		m[v] = k
	}
	return m
}()

// PathOps are the 8 path-carrying opcodes.
var PathOps = []string{"OPEN_FILE", "STAT", "OPEN_DIR", "CREATE", "DELETE", "MKDIR", "RMDIR", "DIR_SIZE"}

// BStr is a byte string that survives JSON (non-UTF-8 bytes are kept as \xNN).
type BStr string

func (b BStr) MarshalJSON() ([]byte, error) {
	var sb strings.Builder
	for i := 0; i < len(b); i++ {
		c := b[i]
		if c < 0x20 || c >= 0x7f || c == '\\' {
			fmt.Fprintf(&sb, "\\x%02x", c)
		} else {
			sb.WriteByte(c)
		}
	}
	return json.Marshal(sb.String())
}

func (b *BStr) UnmarshalJSON(d []byte) error {
	var s string
	if err := json.Unmarshal(d, &s); err != nil {
		return err
	}
	var out []byte
	for i := 0; i < len(s); i++ {
		if s[i] == '\\' && i+3 < len(s) && s[i+1] == 'x' {
			v, err := strconv.ParseUint(s[i+2:i+4], 16, 8)
			if err == nil {
				out = append(out, byte(v))
				i += 3
				continue
			}
		}
		out = append(out, s[i])
	}
	*b = BStr(out)
	return nil
}

// Req is one protocol request as pure data.
type Req struct {
	Op    string `json:"op"` // name from OpNames, or "RAW" (Raw bytes sent verbatim), or "UNKNOWN" (opcode in N)
	Path  BStr   `json:"path,omitempty"`
	N     uint32 `json:"n,omitempty"`     // bytes to read / bytes to write / raw opcode for UNKNOWN
	Off   uint64 `json:"off,omitempty"`   // read offset
	Start uint32 `json:"start,omitempty"` // READ_CD
	Count uint32 `json:"count,omitempty"` // READ_CD
	Seed  uint64 `json:"seed,omitempty"`  // payload PRF seed for WRITE
	Raw   BStr   `json:"raw,omitempty"`
	// Short: send only the first Short bytes of the encoded request (truncation), 0 = all.
	Short int `json:"short,omitempty"`
}

func (r Req) String() string {
	switch r.Op {
	case "READ_FILE", "READ_CRIT":
		return fmt.Sprintf("%s(n=%d,off=%d)", r.Op, r.N, r.Off)
	case "READ_CD":
		return fmt.Sprintf("READ_CD(start=%d,count=%d)", r.Start, r.Count)
	case "WRITE":
		return fmt.Sprintf("WRITE(n=%d)", r.N)
	case "READ_DIR", "READ_ENTRY", "READ_ENTRY2":
		return r.Op
	case "RAW":
		return fmt.Sprintf("RAW(%d bytes)", len(r.Raw))
	case "UNKNOWN":
		return fmt.Sprintf("UNKNOWN(0x%x)", r.N)
	}
	p := string(r.Path)
	if len(p) > 80 {
		p = p[:80] + "..."
	}
	return fmt.Sprintf("%s(%q)", r.Op, p)
}

// Payload returns the upload bytes of a WRITE request.
func (r Req) Payload() []byte {
	return PRFBytes(r.Seed, 0, int(r.N))
}

// Encode renders the request bytes (command, then path or payload).
func (r Req) Encode() []byte {
	var out []byte
	switch r.Op {
	case "RAW":
		out = []byte(r.Raw)
	case "UNKNOWN":
		out = make([]byte, 16)
		binary.BigEndian.PutUint16(out, uint16(r.N))
	default:
		op, ok := OpByName[r.Op]
		if !ok {
			panic("bad op " + r.Op)
		}
		cmd := make([]byte, 16)
		binary.BigEndian.PutUint16(cmd, uint16(op))
		switch r.Op {
		case "OPEN_FILE", "STAT", "OPEN_DIR", "CREATE", "DELETE", "MKDIR", "RMDIR", "DIR_SIZE":
			if len(r.Path) > 0xffff {
				panic("path too long")
			}
			binary.BigEndian.PutUint16(cmd[2:], uint16(len(r.Path)))
			out = append(cmd, r.Path...)
		case "READ_FILE", "READ_CRIT":
			binary.BigEndian.PutUint32(cmd[4:], r.N)
			binary.BigEndian.PutUint64(cmd[8:], r.Off)
			out = cmd
		case "READ_CD":
			binary.BigEndian.PutUint32(cmd[4:], r.Start)
			binary.BigEndian.PutUint32(cmd[8:], r.Count)
			out = cmd
		case "WRITE":
			binary.BigEndian.PutUint32(cmd[4:], r.N)
			out = append(cmd, r.Payload()...)
		default:
			out = cmd
		}
	}
	if r.Short > 0 && r.Short < len(out) {
		out = out[:r.Short]
	}
	return out
}

// ---- connection ---------------------------------------------------------

// ErrTimeout marks "no (complete) reply within the window": never judged on its
// own; the caller re-runs the case before calling it a violation.
var ErrTimeout = errors.New("reply timeout")

// Conn is a client connection with deadline-aware reads.
type Conn struct {
	C       net.Conn
	Timeout time.Duration
	// Recv accumulates every byte received (for marker scans).
	Recv     []byte
	KeepRecv bool
	closed   bool
}

func Dial(addr string) (*Conn, error) {
	return DialFrom("", addr)
}

// DialFrom dials with a chosen local source address (e.g. 127.0.0.5).
func DialFrom(local, addr string) (*Conn, error) {
	var last error
	for try := 0; try < 6; try++ {
		d := net.Dialer{Timeout: 15 * time.Second}
		src := local
		if src == "" && strings.HasPrefix(addr, "127.") {
			src = NextLoopAddr() // spread the client side over many source addresses (TIME_WAIT)
		}
		if src != "" {
			d.LocalAddr = &net.TCPAddr{IP: net.ParseIP(src)}
		}
		c, err := d.Dial("tcp", addr)
		if err == nil {
			return &Conn{C: c, Timeout: ReplyTimeout()}, nil
		}
		last = err
		if local != "" && !strings.Contains(err.Error(), "assign requested address") && !strings.Contains(err.Error(), "in use") {
			break
		}
		time.Sleep(50 * time.Millisecond)
	}
	return nil, &InfraError{Err: last}
}

var slowRetry atomic.Bool

// SlowRetry doubles the reply window for the confirming re-run of a case that timed out.
func SlowRetry(on bool) { slowRetry.Store(on) }

func ReplyTimeout() time.Duration {
	d := time.Duration(EnvInt("VERIF_REPLY_TIMEOUT_MS", 10000)) * time.Millisecond
	if slowRetry.Load() {
		d *= 2
	}
	return d
}

func (c *Conn) Send(b []byte) error {
	_ = c.C.SetWriteDeadline(time.Now().Add(30 * time.Second))
	_, err := c.C.Write(b)
	return err
}

// SendSplit writes b in two segments cut at k.
func (c *Conn) SendSplit(b []byte, k int) error {
	if k <= 0 || k >= len(b) {
		return c.Send(b)
	}
	if err := c.Send(b[:k]); err != nil {
		return err
	}
	time.Sleep(200 * time.Microsecond)
	return c.Send(b[k:])
}

// ReadN reads exactly n bytes. It returns the bytes read so far and
// closed=true when the peer ended the stream first; ErrTimeout on silence.
func (c *Conn) ReadN(n int) (data []byte, closed bool, err error) {
	buf := make([]byte, n)
	_ = c.C.SetReadDeadline(time.Now().Add(c.Timeout))
	got, rerr := io.ReadFull(c.C, buf)
	data = buf[:got]
	if c.KeepRecv {
		c.Recv = append(c.Recv, data...)
	}
	if rerr == nil {
		return data, false, nil
	}
	var ne net.Error
	if errors.As(rerr, &ne) && ne.Timeout() {
		return data, false, ErrTimeout
	}
	// EOF, unexpected EOF, reset: the connection has ended
	return data, true, nil
}

// ReadToEnd reads until the peer ends the stream (up to max bytes).
func (c *Conn) ReadToEnd(max int) (data []byte, closed bool, err error) {
	_ = c.C.SetReadDeadline(time.Now().Add(c.Timeout))
	buf := make([]byte, 32*1024)
	for len(data) <= max {
		n, rerr := c.C.Read(buf)
		data = append(data, buf[:n]...)
		if c.KeepRecv {
			c.Recv = append(c.Recv, buf[:n]...)
		}
		if rerr != nil {
			var ne net.Error
			if errors.As(rerr, &ne) && ne.Timeout() {
				return data, false, ErrTimeout
			}
			return data, true, nil
		}
	}
	return data, false, nil
}

// CloseWrite half-closes (the server sees EOF on its next read).
func (c *Conn) CloseWrite() {
	if tc, ok := c.C.(*net.TCPConn); ok {
		_ = tc.CloseWrite()
	}
}

// Reset closes with RST.
func (c *Conn) Reset() {
	if tc, ok := c.C.(*net.TCPConn); ok {
		_ = tc.SetLinger(0)
	}
	c.Close()
}

func (c *Conn) Close() {
	if !c.closed {
		c.closed = true
		_ = c.C.Close()
	}
}

// ExpectEnd half-closes and demands that the server ends the stream without
// sending anything more ("no stray bytes").
func (c *Conn) ExpectEnd() error {
	c.CloseWrite()
	data, closed, err := c.ReadToEnd(1 << 20)
	if len(data) > 0 {
		return Failf("no-stray-bytes", "%d stray bytes after the last reply: %x", len(data), head(data, 64))
	}
	if err != nil {
		return err
	}
	if !closed {
		return Failf("no-stray-bytes", "stream did not end")
	}
	return nil
}

func head(b []byte, n int) []byte {
	if len(b) > n {
		return b[:n]
	}
	return b
}

// ---- decoded replies ----------------------------------------------------

type StatReply struct {
	Size                int64
	MTime, CTime, ATime uint64
	IsDir               bool
}

type EntryReply struct {
	Size                int64
	MTime, CTime, ATime uint64
	IsDir               bool
	Name                string
	End                 bool
	HasTimes            bool
}

func be64(b []byte) uint64 { return binary.BigEndian.Uint64(b) }
func be32(b []byte) uint32 { return binary.BigEndian.Uint32(b) }
func be16(b []byte) uint16 { return binary.BigEndian.Uint16(b) }

var _ = os.Getenv
