package hx

import (
	"crypto/sha256"
	"encoding/hex"
	"fmt"
	"io"
	"os"
	"path/filepath"
	"sort"
	"strings"
	"syscall"
	"time"
)

// Node is one object of a generated tree (pure data; content is a PRF stream).
type Node struct {
	Name             string     `json:"name"`
	Kind             string     `json:"kind"` // file | dir | symlink
	Size             int64      `json:"size,omitempty"`
	Seed             uint64     `json:"seed,omitempty"`
	Target           string     `json:"target,omitempty"` // symlink target, as written into the link
	MTime            int64      `json:"mtime,omitempty"`  // unix seconds, 0 = leave
	Sparse           bool       `json:"sparse,omitempty"` // file: holes with PRF islands (see Content)
	Raw              BStr       `json:"rawc,omitempty"`   // file: literal content instead of PRF (small fixtures)
	Spans            [][2]int64 `json:"spans,omitempty"`  // sparse file: extra [from,to) ranges holding PRF data
	NoDefaultIslands bool       `json:"no_default_islands,omitempty"`
	Patches          []Patch    `json:"patches,omitempty"` // literal bytes laid over the content
	Children         []*Node    `json:"children,omitempty"`
}

func Dir(name string, ch ...*Node) *Node { return &Node{Name: name, Kind: "dir", Children: ch} }
func File(name string, size int64, seed uint64) *Node {
	return &Node{Name: name, Kind: "file", Size: size, Seed: seed}
}
func RawFile(name string, content []byte) *Node {
	return &Node{Name: name, Kind: "file", Size: int64(len(content)), Raw: BStr(content)}
}
func Link(name, target string) *Node { return &Node{Name: name, Kind: "symlink", Target: target} }

// Fifo is a named pipe (a special file: neither regular file nor directory).
func Fifo(name string) *Node { return &Node{Name: name, Kind: "fifo"} }

// Patch is literal data at an offset (signatures, headers).
type Patch struct {
	Off  int64 `json:"off"`
	Data BStr  `json:"data"`
}

const islandSize = 8192

// islands of a sparse file: offsets where PRF data lives (everything else reads zero).
func (n *Node) islands() []int64 {
	var is []int64
	add := func(o int64) {
		if o < 0 {
			o = 0
		}
		if o+islandSize > n.Size {
			o = n.Size - islandSize
		}
		if o < 0 {
			return
		}
		is = append(is, o)
	}
	add(0)
	add(n.Size - islandSize)
	for _, b := range []int64{1 << 31, 1 << 32, 0xFFFFF800, 2 * 0xFFFFF800, 1 << 33} {
		if b < n.Size {
			add(b - islandSize/2)
		}
	}
	sort.Slice(is, func(i, j int) bool { return is[i] < is[j] })
	return is
}

// spans returns the data-carrying ranges of a sparse file.
func (n *Node) spans() [][2]int64 {
	var sp [][2]int64
	if !n.NoDefaultIslands {
		for _, is := range n.islands() {
			sp = append(sp, [2]int64{is, is + islandSize})
		}
	}
	for _, s := range n.Spans {
		a, b := s[0], s[1]
		if a < 0 {
			a = 0
		}
		if b > n.Size {
			b = n.Size
		}
		if a < b {
			sp = append(sp, [2]int64{a, b})
		}
	}
	return sp
}

// Content returns bytes [off, off+n) of the file (clipped at Size).
func (n *Node) Content(off int64, cnt int) []byte {
	if off >= n.Size {
		return nil
	}
	if int64(cnt) > n.Size-off {
		cnt = int(n.Size - off)
	}
	var out []byte
	switch {
	case len(n.Raw) > 0:
		out = append([]byte(nil), n.Raw[off:off+int64(cnt)]...)
	case !n.Sparse:
		out = PRFBytes(n.Seed, off, cnt)
	default:
		out = make([]byte, cnt)
		for _, sp := range n.spans() {
			lo, hi := sp[0], sp[1]
			if hi <= off || lo >= off+int64(cnt) {
				continue
			}
			a, b := max64(lo, off), min64(hi, off+int64(cnt))
			PRFFill(n.Seed, a, out[a-off:b-off])
		}
	}
	for _, p := range n.Patches {
		lo, hi := p.Off, p.Off+int64(len(p.Data))
		if hi <= off || lo >= off+int64(cnt) {
			continue
		}
		a, b := max64(lo, off), min64(hi, off+int64(cnt))
		copy(out[a-off:b-off], p.Data[a-lo:b-lo])
	}
	return out
}

func max64(a, b int64) int64 {
	if a > b {
		return a
	}
	return b
}
func min64(a, b int64) int64 {
	if a < b {
		return a
	}
	return b
}

// Materialize creates the node's children under dir (dir must exist).
func Materialize(dir string, n *Node) error {
	for _, c := range n.Children {
		if err := materializeOne(dir, c); err != nil {
			return err
		}
	}
	return applyMTimes(dir, n)
}

func materializeOne(dir string, c *Node) error {
	p := filepath.Join(dir, c.Name)
	switch c.Kind {
	case "dir":
		if err := os.Mkdir(p, 0o755); err != nil {
			return err
		}
		for _, cc := range c.Children {
			if err := materializeOne(p, cc); err != nil {
				return err
			}
		}
	case "file":
		f, err := os.OpenFile(p, os.O_CREATE|os.O_EXCL|os.O_WRONLY, 0o644)
		if err != nil {
			return err
		}
		if c.Sparse {
			if err := f.Truncate(c.Size); err != nil {
				f.Close()
				return err
			}
			for _, sp := range c.spans() {
				if _, err := f.WriteAt(c.Content(sp[0], int(sp[1]-sp[0])), sp[0]); err != nil {
					f.Close()
					return err
				}
			}
			for _, pt := range c.Patches {
				if pt.Off < c.Size {
					if _, err := f.WriteAt(c.Content(pt.Off, len(pt.Data)), pt.Off); err != nil {
						f.Close()
						return err
					}
				}
			}
		} else {
			const chunk = 1 << 20
			for off := int64(0); off < c.Size; off += chunk {
				if _, err := f.Write(c.Content(off, chunk)); err != nil {
					f.Close()
					return err
				}
			}
		}
		if err := f.Close(); err != nil {
			return err
		}
	case "symlink":
		if err := os.Symlink(c.Target, p); err != nil {
			return err
		}
	case "fifo":
		// a named pipe: opening it blocks until somebody opens the other end (nobody will)
		if err := syscall.Mkfifo(p, 0o644); err != nil {
			return err
		}
	default:
		return fmt.Errorf("bad kind %q", c.Kind)
	}
	return nil
}

func applyMTimes(dir string, n *Node) error {
	// children first so that creating them does not disturb the parent's mtime afterwards
	for _, c := range n.Children {
		p := filepath.Join(dir, c.Name)
		if c.Kind == "dir" {
			if err := applyMTimes(p, c); err != nil {
				return err
			}
		}
		if c.MTime != 0 && c.Kind != "symlink" {
			t := time.Unix(c.MTime, 0)
			if err := os.Chtimes(p, t, t); err != nil {
				return err
			}
		}
	}
	return nil
}

// Walk visits every node with its slash path relative to the tree root ("" for the root).
func (n *Node) Walk(fn func(rel string, n *Node)) {
	var rec func(prefix string, x *Node)
	rec = func(prefix string, x *Node) {
		fn(prefix, x)
		for _, c := range x.Children {
			p := c.Name
			if prefix != "" {
				p = prefix + "/" + c.Name
			}
			rec(p, c)
		}
	}
	rec("", n)
}

// Paths lists the relative slash paths by kind.
func (n *Node) Paths() (files, dirs, links []string) {
	n.Walk(func(rel string, x *Node) {
		if rel == "" {
			return
		}
		switch x.Kind {
		case "file":
			files = append(files, rel)
		case "dir":
			dirs = append(dirs, rel)
		default:
			links = append(links, rel)
		}
	})
	return
}

// Find returns the node at rel.
func (n *Node) Find(rel string) *Node {
	if rel == "" {
		return n
	}
	cur := n
	for _, seg := range strings.Split(rel, "/") {
		var nx *Node
		for _, c := range cur.Children {
			if c.Name == seg {
				nx = c
				break
			}
		}
		if nx == nil {
			return nil
		}
		cur = nx
	}
	return cur
}

func (n *Node) CountNodes() int {
	c := 0
	n.Walk(func(string, *Node) { c++ })
	return c
}

// ---- the harness's own view of a real directory (syscalls only) ----------

type Snap struct {
	Kind  string // file dir symlink other
	Size  int64
	MTime int64
	Hash  string
	Link  string
}

// Snapshot walks dir with lstat and returns rel path -> Snap (content hashed).
func Snapshot(dir string) (map[string]Snap, error) {
	out := map[string]Snap{}
	err := filepath.Walk(dir, func(p string, info os.FileInfo, err error) error {
		if err != nil {
			return err
		}
		rel, _ := filepath.Rel(dir, p)
		s := Snap{Size: info.Size(), MTime: info.ModTime().UnixNano()}
		switch {
		case info.Mode()&os.ModeSymlink != 0:
			s.Kind = "symlink"
			s.Link, _ = os.Readlink(p)
			s.Size = 0
		case info.IsDir():
			s.Kind = "dir"
			s.Size = 0
		case info.Mode().IsRegular():
			s.Kind = "file"
			h, err := hashFile(p)
			if err != nil {
				return err
			}
			s.Hash = h
		default:
			s.Kind = "other"
		}
		out[rel] = s
		return nil
	})
	return out, err
}

func hashFile(p string) (string, error) {
	f, err := os.Open(p)
	if err != nil {
		return "", err
	}
	defer f.Close()
	st, _ := f.Stat()
	h := sha256.New()
	if st.Size() > 256<<20 {
		// sparse giants: hash size + first/last MiB
		fmt.Fprintf(h, "big:%d:", st.Size())
		buf := make([]byte, 1<<20)
		n, _ := f.ReadAt(buf, 0)
		h.Write(buf[:n])
		n, _ = f.ReadAt(buf, st.Size()-(1<<20))
		h.Write(buf[:n])
	} else if _, err := io.Copy(h, f); err != nil {
		return "", err
	}
	return hex.EncodeToString(h.Sum(nil))[:24], nil
}

// DiffSnap describes the difference between two snapshots ("" when equal).
// ignoreDirMTime: directory mtimes change legitimately when children change.
func DiffSnap(a, b map[string]Snap, ignoreDirMTime bool) string {
	var d []string
	for k, va := range a {
		vb, ok := b[k]
		if !ok {
			d = append(d, "removed:"+k)
			continue
		}
		if ignoreDirMTime && va.Kind == "dir" && vb.Kind == "dir" {
			continue
		}
		if va != vb {
			d = append(d, fmt.Sprintf("changed:%s %+v -> %+v", k, va, vb))
		}
	}
	for k := range b {
		if _, ok := a[k]; !ok {
			d = append(d, "added:"+k)
		}
	}
	sort.Strings(d)
	if len(d) > 8 {
		d = append(d[:8], fmt.Sprintf("... %d more", len(d)-8))
	}
	return strings.Join(d, "; ")
}

// StatTimes returns (mtime, ctime, atime) seconds of a stat result.
func StatTimes(fi os.FileInfo) (m, c, a int64) {
	st := fi.Sys().(*syscall.Stat_t)
	return st.Mtim.Sec, st.Ctim.Sec, st.Atim.Sec
}
