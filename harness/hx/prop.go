package hx

import (
	"errors"
	"fmt"
	"runtime/debug"
	"testing"

	"pgregory.net/rapid"
)

// PropOpts tunes RunProp.
type PropOpts struct {
	// WriteAhead saves every case before running it (needed when the code under
	// test runs in goroutines that can kill the process).
	WriteAhead bool
}

// RunProp is the common shape of every rapid-driven check: draw a pure-data
// case, run it against the oracle, persist a failing case as the replay file.
// With VERIF_REPLAY set it runs exactly the saved case without the library.
func RunProp[C any](t *testing.T, st *Stats, gen func(*rapid.T) C, run func(c C, st *Stats) error, opts PropOpts) {
	t.Helper()
	defer st.Flush()
	var rc C
	if is, err := LoadReplay(st.Property, st.Unit, &rc); is {
		if err != nil {
			t.Fatalf("replay file unreadable: %v", err)
		}
		st.Eval()
		if err := SafeRun(func() error { return run(rc, st) }); err != nil {
			if IsInfra(err) {
				t.Fatalf("INFRA-INCONCLUSIVE: %v", err)
			}
			Report(t, st.Property, st.Unit, rc, err)
		}
		return
	}
	if os_replayOther() {
		t.Skip("replay of another unit")
	}
	rapid.Check(t, func(rt *rapid.T) {
		c := gen(rt)
		if opts.WriteAhead {
			SaveCurrent(st.Property, st.Unit, c)
		}
		st.Eval()
		err := SafeRun(func() error { return run(c, st) })
		if opts.WriteAhead {
			ClearCurrent(st.Property, st.Unit)
		}
		if err != nil {
			if IsInfra(err) {
				if st.Infra(err) {
					rt.Fatalf("INFRA-INCONCLUSIVE: too many harness infrastructure errors, last: %v", err)
				}
				return
			}
			Report(rt, st.Property, st.Unit, c, err)
		}
	})
}

// IsInfra: the error does not come from an oracle (no *Fail in its chain) but from the harness's own
// infrastructure (ports, scratch space, process start): such a case is not judged.
func IsInfra(err error) bool {
	var f *Fail
	return !errors.As(err, &f) // every oracle failure is a *Fail; anything else is the harness's own trouble
}

// RunCases is the same for enumerated (non-random) case lists; shard-split.
func RunCases[C any](t *testing.T, st *Stats, cases func(yield func(C) bool), run func(c C, st *Stats) error, opts PropOpts) {
	t.Helper()
	defer st.Flush()
	var rc C
	if is, err := LoadReplay(st.Property, st.Unit, &rc); is {
		if err != nil {
			t.Fatalf("replay file unreadable: %v", err)
		}
		st.Eval()
		if err := SafeRun(func() error { return run(rc, st) }); err != nil {
			Report(t, st.Property, st.Unit, rc, err)
		}
		return
	}
	if os_replayOther() {
		t.Skip("replay of another unit")
	}
	si, sn := Shard()
	idx := 0
	cases(func(c C) bool {
		mine := idx%sn == si
		idx++
		if !mine {
			return true
		}
		if opts.WriteAhead {
			SaveCurrent(st.Property, st.Unit, c)
		}
		st.Eval()
		err := SafeRun(func() error { return run(c, st) })
		if opts.WriteAhead {
			ClearCurrent(st.Property, st.Unit)
		}
		if err != nil {
			if IsInfra(err) {
				if st.Infra(err) {
					t.Fatalf("INFRA-INCONCLUSIVE: too many harness infrastructure errors, last: %v", err)
				}
				return true
			}
			Report(t, st.Property, st.Unit, c, err)
			return false
		}
		return true
	})
}

// SafeRun turns a panic of synchronous code under test into an oracle failure.
func SafeRun(f func() error) (err error) {
	defer func() {
		if r := recover(); r != nil {
			// rapid uses panics for its own control flow (Fatalf/Skip inside Draw):
			// re-raise anything that is not a runtime error or a plain value from the code under test.
			if isRapidPanic(r) {
				panic(r)
			}
			err = Failf("no-panic", "panic: %v\n%s", r, trimStack(debug.Stack()))
		}
	}()
	return f()
}

func isRapidPanic(r any) bool {
	s := fmt.Sprintf("%T", r)
	return len(s) >= 6 && (s == "rapid.stopTest" || s == "rapid.invalidData" || (len(s) > 6 && s[:6] == "rapid."))
}

func trimStack(b []byte) string {
	if len(b) > 3000 {
		b = b[:3000]
	}
	return string(b)
}
