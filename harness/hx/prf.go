package hx

import "encoding/binary"

func splitmix(x uint64) uint64 {
	x += 0x9e3779b97f4a7c15
	x = (x ^ (x >> 30)) * 0xbf58476d1ce4e5b9
	x = (x ^ (x >> 27)) * 0x94d049bb133111eb
	return x ^ (x >> 31)
}

// PRFBytes returns bytes [off, off+n) of the pseudo-random stream named by seed.
// Content of every generated file is such a stream, so a case needs to carry
// only (seed, size) and any window can be verified without storing the file.
func PRFBytes(seed uint64, off int64, n int) []byte {
	out := make([]byte, n)
	PRFFill(seed, off, out)
	return out
}

func PRFFill(seed uint64, off int64, out []byte) {
	i := 0
	n := len(out)
	var blk [8]byte
	for i < n {
		pos := off + int64(i)
		bi := pos / 8
		binary.LittleEndian.PutUint64(blk[:], splitmix(seed*0x100000001b3+uint64(bi)))
		k := int(pos % 8)
		c := copy(out[i:], blk[k:])
		i += c
	}
}
