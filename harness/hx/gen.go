package hx

import (
	"fmt"
	"strings"

	"pgregory.net/rapid"
)

// BoundarySizes is the size set named by the properties.
var BoundarySizes = []int64{0, 1, 2047, 2048, 2049, 4095, 4096, 65535, 65536, 65537, 131071, 131072, 131073}

func GenSize(t *rapid.T, label string, maxRandom int64) int64 {
	if rapid.IntRange(0, 9).Draw(t, label+"-class") < 7 {
		return rapid.SampledFrom(BoundarySizes).Draw(t, label)
	}
	return rapid.Int64Range(0, maxRandom).Draw(t, label)
}

type TreeOpts struct {
	MaxDepth   int
	MaxEntries int // per directory
	MaxTotal   int
	MaxFile    int64
	Symlinks   bool
	NameClass  []string // portable | long | nonascii | casecollide | mapcollide | spaces
	MTimes     bool
	EmptyBias  bool // more empty files
}

var portableRunes = []rune("ABCDEFGHIJKLMNOPQRSTUVWXYZabcdefghijklmnopqrstuvwxyz0123456789_")

// GenName draws a file/dir name of the given class.
func GenName(t *rapid.T, class string, label string) string {
	switch class {
	case "long":
		n := rapid.SampledFrom([]int{64, 80, 100, 109, 110, 110, 111, 128, 221, 222, 255}).Draw(t, label+"-len")
		base := rapid.StringOfN(rapid.RuneFrom(portableRunes), 1, 8, -1).Draw(t, label)
		return (base + strings.Repeat("x", n))[:n]
	case "nonascii":
		r := rapid.StringOfN(rapid.RuneFrom([]rune("äöüßéèñçΩжяあ漢字😀ıİ")), 1, 6, -1).Draw(t, label)
		return r + rapid.StringOfN(rapid.RuneFrom(portableRunes), 0, 4, -1).Draw(t, label+"-t")
	case "spaces":
		return rapid.StringOfN(rapid.RuneFrom([]rune("ab AB-+.,;()[]{}!#$%&'=@^`~")), 1, 10, -1).
			Filter(func(s string) bool { return s != "." && s != ".." && strings.TrimSpace(s) != "" }).Draw(t, label)
	default:
		n := rapid.StringOfN(rapid.RuneFrom(portableRunes), 1, 10, -1).Draw(t, label)
		if rapid.Bool().Draw(t, label+"-ext") {
			n += "." + rapid.StringOfN(rapid.RuneFrom(portableRunes), 1, 3, -1).Draw(t, label+"-e")
		}
		return n
	}
}

// GenTree draws a directory tree as pure data.
func GenTree(t *rapid.T, o TreeOpts) *Node {
	if o.MaxTotal == 0 {
		o.MaxTotal = 60
	}
	if len(o.NameClass) == 0 {
		o.NameClass = []string{"portable"}
	}
	if o.MaxFile == 0 {
		o.MaxFile = 200000
	}
	total := 0
	seed := uint64(1)
	var gen func(depth int, label string) []*Node
	gen = func(depth int, label string) []*Node {
		n := rapid.IntRange(0, o.MaxEntries).Draw(t, label+"-n")
		var out []*Node
		used := map[string]bool{}
		usedFold := map[string]bool{}
		for i := 0; i < n && total < o.MaxTotal; i++ {
			l := fmt.Sprintf("%s.%d", label, i)
			class := rapid.SampledFrom(o.NameClass).Draw(t, l+"-class")
			var name string
			switch class {
			case "casecollide":
				// collide with a previous sibling after upper-casing
				if len(out) > 0 {
					prev := out[rapid.IntRange(0, len(out)-1).Draw(t, l+"-prev")].Name
					name = swapCase(prev)
				} else {
					name = GenName(t, "portable", l)
				}
			case "mapcollide":
				if len(out) > 0 {
					prev := out[rapid.IntRange(0, len(out)-1).Draw(t, l+"-prev")].Name
					name = strings.Map(func(r rune) rune {
						if r == '_' {
							return '#'
						}
						return r
					}, prev)
					if name == prev {
						name = prev + "#"
					}
				} else {
					name = GenName(t, "portable", l) + "_"
				}
			default:
				if rel := rapid.IntRange(0, 5).Draw(t, l+"-related"); rel == 0 && len(out) > 0 {
					// a name related to a sibling's: extended by a suffix, or a proper prefix of it (path-prefix
					// confusion, sort order of equal prefixes, ISO name mapping)
					prev := out[rapid.IntRange(0, len(out)-1).Draw(t, l+"-relprev")].Name
					if rs := []rune(prev); rapid.IntRange(0, 5).Draw(t, l+"-relkind") == 0 && len(rs) > 1 {
						name = string(rs[:1+rapid.IntRange(0, len(rs)-2).Draw(t, l+"-relcut")])
					} else {
						name = prev + rapid.SampledFrom([]string{"2", "_", "0", "A", "a", ".x", "-1"}).Draw(t, l+"-relsuffix")
					}
				} else {
					name = GenName(t, class, l)
				}
			}
			if used[name] || name == "" || name == "." || name == ".." || len(name) > 255 {
				continue
			}
			fold := strings.ToUpper(name)
			if usedFold[fold] && class != "casecollide" {
				continue // accidental collisions are not wanted outside their class
			}
			used[name] = true
			usedFold[fold] = true
			total++
			kindPick := rapid.IntRange(0, 9).Draw(t, l+"-kind")
			switch {
			case kindPick < 3 && depth < o.MaxDepth:
				d := &Node{Name: name, Kind: "dir"}
				d.Children = gen(depth+1, l)
				out = append(out, d)
			case kindPick == 3 && o.Symlinks:
				tgt := "nothing-here"
				if len(out) > 0 && rapid.IntRange(0, 3).Draw(t, l+"-dangle") > 0 {
					tgt = out[rapid.IntRange(0, len(out)-1).Draw(t, l+"-tgt")].Name
				}
				out = append(out, &Node{Name: name, Kind: "symlink", Target: tgt})
			default:
				seed++
				var sz int64
				if o.EmptyBias && rapid.IntRange(0, 3).Draw(t, l+"-empty") == 0 {
					sz = 0
				} else {
					sz = GenSize(t, l+"-size", o.MaxFile)
				}
				f := &Node{Name: name, Kind: "file", Size: sz, Seed: seed*7919 + uint64(depth)}
				out = append(out, f)
			}
			if o.MTimes {
				out[len(out)-1].MTime = rapid.Int64Range(1_000_000_000, 1_700_000_000).Draw(t, l+"-mtime")
			}
		}
		return out
	}
	root := &Node{Name: "", Kind: "dir"}
	root.Children = gen(0, "t")
	return root
}

func swapCase(s string) string {
	return strings.Map(func(r rune) rune {
		switch {
		case r >= 'a' && r <= 'z':
			return r - 32
		case r >= 'A' && r <= 'Z':
			return r + 32
		}
		return r
	}, s)
}

// GenReadRange draws (offset, limit) aimed at the boundaries of an object of the given size.
// GenHugeOffset: offsets at and next to every power of two from 2^31 to 2^63 (where 32-bit byte, sector and
// block counters of any width wrap), plus the all-ones value.
func GenHugeOffset(t *rapid.T, label string) uint64 {
	k := rapid.IntRange(31, 64).Draw(t, label+"-pow")
	if k == 64 {
		return ^uint64(0) - uint64(rapid.IntRange(0, 2).Draw(t, label+"-ones"))
	}
	d := rapid.SampledFrom([]int64{-2049, -2048, -100, -1, 0, 1, 5, 2048}).Draw(t, label+"-delta")
	return uint64(int64(uint64(1)<<k) + d)
}

func GenReadRange(t *rapid.T, size int64, label string) (off uint64, n uint32) {
	anchors := []int64{0, size, size - 1, size + 1, size / 2, 2048, 4096, 65536, 131072, size - 2048, size - 65536}
	pick := func(l string) int64 {
		switch rapid.IntRange(0, 9).Draw(t, l+"-c") {
		case 0, 1, 2, 3, 4, 5:
			a := rapid.SampledFrom(anchors).Draw(t, l+"-a") + int64(rapid.IntRange(-2, 2).Draw(t, l+"-d"))
			if a < 0 {
				a = 0
			}
			return a
		case 6, 7, 8:
			return rapid.Int64Range(0, size+10).Draw(t, l+"-u")
		default:
			return int64(GenHugeOffset(t, l+"-big") & (1<<63 - 1))
		}
	}
	o := pick(label + "-off")
	var ln int64
	switch rapid.IntRange(0, 9).Draw(t, label+"-lc") {
	case 0:
		ln = 0
	case 1, 2, 3:
		ln = rapid.SampledFrom([]int64{1, 2047, 2048, 2049, 65535, 65536, 65537, 131073}).Draw(t, label+"-ls")
	case 4, 5, 6:
		e := pick(label + "-end")
		ln = e - o
		if ln < 0 {
			ln = -ln
		}
	case 7:
		ln = size - o + int64(rapid.IntRange(-2, 2).Draw(t, label+"-ld"))
		if ln < 0 {
			ln = 0
		}
	default:
		ln = rapid.Int64Range(0, 300000).Draw(t, label+"-lu")
	}
	if ln > 0x7fffffff {
		ln = 0x7fffffff
	}
	// the offset is an unsigned 64-bit number: the upper half of its range - read as signed it is negative - and in
	// particular the first 'size' offsets above 2^63 (where size - offset wraps to something small and positive)
	switch rapid.IntRange(0, 15).Draw(t, label+"-top") {
	case 0:
		return 1<<63 + uint64(rapid.Int64Range(0, size+2).Draw(t, label+"-top-in")), uint32(ln)
	case 1:
		return GenHugeOffset(t, label+"-top-huge") | 1<<63, uint32(ln)
	}
	return uint64(o), uint32(ln)
}
