module github.com/xakep666/ps3netsrv-go/verif

go 1.23.0

require (
	github.com/spf13/afero v1.12.0
	github.com/xakep666/ps3netsrv-go v0.0.0
	golang.org/x/net v0.37.0
	golang.org/x/sys v0.31.0
	pgregory.net/rapid v1.3.0
)

require (
	github.com/alecthomas/kong v1.8.1 // indirect
	github.com/djherbis/times v1.6.0 // indirect
	github.com/lmittmann/tint v1.0.7 // indirect
	golang.org/x/text v0.23.0 // indirect
	gopkg.in/ini.v1 v1.67.0 // indirect
)

replace github.com/xakep666/ps3netsrv-go => /repo
