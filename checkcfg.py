# Per-property configuration of the driver: which test units make up a check,
# their case counts per tier (quick, thorough), sharding and needs.
# kind: rapid (random generation, -rapid.checks split over shards) | enum (enumerated
# case list split over shards by index).

INPROC = "the in-process target duplicates the two lines of wiring of cmd/ps3netsrv-go/server.go (BasePathFs + pkg/fs.FS + handler); the kernel's filesystem and loopback TCP are trusted"

CHECKS = {
    "C03": dict(
        level="exploration",
        rule="sessions = request histories over all 15 opcodes against a generated tree, checked reply by reply against an independent "
             "nondeterministic reference model of the protocol, ending with a half-close that must yield a clean end of stream; "
             "units: enum (all sequences over a 29-request alphabet up to length 2/3 x writing on/off), trunc (every truncation point of every alphabet request), "
             "random (rapid histories of 1..40 requests, transports sync/pipelined/split), pipeclose ([OPEN_FILE, READ_FILE(n), bad request + trailing bytes] sent at once by a client with a small receive buffer that starts reading late: the whole correct answer to READ_FILE must arrive before the end). READ_FILE without a readable open file must be answered -1 (not by closing); an empty critical read never ends the connection. non-trivial = visits >= 2 state components, or an upload with payload "
             "followed by another request, or a truncated/unknown request, or a pipelined burst; distinct by (write mode, transport, request list)",
        assumptions=[INPROC, "a missing reply counts only if it repeats on a second run of the same case (timeouts are never judged alone)"],
        units=[
            dict(test="TestC03Enum", unit="enum", kind="enum", shards=(8, 16)),
            dict(test="TestC03Trunc", unit="trunc", kind="enum", shards=(4, 4)),
            dict(test="TestC03Random", unit="random", kind="rapid", checks=(2400, 48000), shards=(8, 16)),
            dict(test="TestC03PipeClose", unit="pipeclose", kind="rapid", checks=(160, 3000), shards=(4, 8)),
        ],
    ),
    "C14": dict(
        fuzz=[('FuzzC14', 60), ('FuzzSpec', 60)],
        level="exploration",
        technique="property-based testing (rapid) + exhaustive prefix/block enumeration against a reference on net/netip + math/big",
        rule="specifications drawn from the documented grammar (single, a-b, v4/v6 CIDR with every prefix length, every contiguous v4 netmask; aligned and "
             "host-bits-set bases) and from the named reject classes; each accepted spec is probed at both borders +-2, a random interior and random exterior "
             "addresses, in 16-byte and (for IPv4) 4-byte form, against the documented set computed on 128-bit integers; 1/8 of the blocks of <= 4096 addresses are "
             "swept address by address. non-trivial = probe within 1 of a border, or base with host bits set, or a prefix length outside the 10 the test-suite covers, "
             "or an invalid spec; distinct by (spec text, probe). Valid classes include IPv6 CIDRs based in ::/16 (IPv4-mapped and neighbouring space, hexadecimal and dotted spelling); invalid classes include signed prefix lengths and netmask forms written in IPv6 notation. Valid class range6-low: IPv6 ranges with one or both bounds inside ::ffff:0:0/96 (hexadecimal or dotted spelling); the reject class mixed-family includes one bound per notation ('::ffff:a.b.c.d-a.b.c.e')",
        assumptions=["net/netip and math/big are trusted as the reference arithmetic", "spec spellings outside the documented grammar and outside the named reject classes are not generated (don't-care)"],
        units=[
            dict(test="TestC14Random", unit="random", kind="rapid", checks=(60000, 1500000), shards=(8, 16)),
            dict(test="TestC14Prefixes", unit="prefixes", kind="enum", shards=(4, 4)),
        ],
    ),
    "C02": dict(
        level="exploration",
        rule="sessions that open generated files (boundary sizes 0,1,2047..2049,64 KiB+-1,k*64 KiB+-1, random <= 4 MiB, sparse files around 4 GiB and 5 GiB) and issue "
             "ordinary and critical reads with (offset, limit) aimed at EOF, 2048 and 64 KiB multiples, limit 0 and limits up to 2^31-1, interleaved with other requests; "
             "every reply is compared with the harness's own pread of the file (announced count == min(limit, max(0,size-offset)), bytes equal, critical reads: exact bytes or "
             "correct prefix then end of connection). non-trivial = a read that crosses/touches EOF, or has an edge within 2 bytes of a 2048/65536 multiple, or offset >= 4 GiB, "
             "or a non-plain object; distinct by (object kind, command, size, offset, limit). unit objects: the same read geometries over the network against a generated image "
             "(***DVD***/***PS3***; expected bytes = the library's canonical image under the C18 mask, announced size must equal its length) and against decrypted views (PS3ISO + .dkey, "
             "3k3y; expected bytes = reference plaintext), with both read commands",
        assumptions=[INPROC, "bytes transferred per read are capped at 8 MiB (limits up to 2^31-1 are exercised where the file is smaller)"],
        units=[
            dict(test="TestC02Plain", unit="plain", kind="rapid", checks=(1600, 40000), shards=(8, 16)),
            dict(test="TestC02Objects", unit="objects", kind="rapid", checks=(800, 20000), shards=(8, 16)),
            dict(test="TestC02Lease", unit="lease", kind="enum", shards=(4, 4), bin=True),
        ],
    ),
    "C09": dict(
        fuzz=[('FuzzC09', 120)],
        level="exploration",
        technique="model-based property testing (rapid): operation sequences on the library view vs. slices of the canonical image; small-scope exhaustive boundary-pair sweep",
        rule="trees of <= 4 files with boundary sizes (0,1,2047..2049,4095..4097,64 KiB+-1,100000), optionally in a sub-directory, plain and PS3 mode; operation "
             "sequences of 1..40 Read(n)/Seek(off,whence)/ReadAt(n,off) with offsets given absolutely or relative (+-3) to the structural boundaries found by the "
             "independent ISO reader (metadata end, each file start/end/padded end, pad-area start, total size) and lengths chosen to end at such a boundary; every "
             "result is compared with the slice of the canonical image (one sequential sector-aligned read, length == announced size) under the io.Reader/io.ReaderAt/"
             "io.Seeker contracts; then reads must progress to exactly the announced size and EOF. 1/6 of the trees get the exhaustive sweep: ReadAt for all "
             "(offset, end) pairs from {boundaries +-1}. non-trivial = a range edge within 3 bytes of a structural boundary with an unaligned offset/length; distinct "
             "by (call kind, boundary kind, delta, offset mod 2048, length class)",
        assumptions=["the canonical image is what one sequential aligned read returns; its agreement with the source tree is C07's subject",
                     "ReadAt with a negative offset is outside the stated domain and is not generated"],
        units=[
            dict(test="TestC09Lib", unit="lib", kind="rapid", checks=(2400, 60000), shards=(8, 16)),
        ],
    ),
    "C07": dict(
        level="exploration",
        technique="property-based testing (rapid): generated trees -> image by 3 routes -> independent ECMA-119/Joliet reader -> exact comparison with the source tree",
        rule="trees generated by shape (deep to 8 levels / flat / empty root / ordinary / with one wide directory of 30..300 entries), portable names distinct after "
             "upper-casing, file sizes from the boundary set with a bias to empty files, both modes (PS3 with a generated well-formed PARAM.SFO), directory order "
             "permuted by a seeded wrapper; image obtained through the library view, over the network (***DVD***/***PS3*** + critical reads) or from make-iso, and, "
             "for synthetic files of 4 GiB-2 KiB..9 GiB, through a PRF-backed read-only filesystem; decoded by the harness's own reader; in both hierarchies the sets of "
             "directories and files must equal the source's and every file's recorded length and bytes must equal the source (in full up to 64 MiB, at all extent "
             "boundaries +-4 KiB and both ends for giants). non-trivial = empty file adjacent to a non-empty one, or a size not a multiple of 2048, or a directory "
             "with > 40 entries, or a file > 4 GiB; distinct by (route, mode, order seed, tree shape). Giant unit: sparse files up to 2^50 bytes; a tree beyond 4 TiB - 64 GiB may be refused (image sector numbers), a produced image must be right. Plain-mode images of the lib route are also listed with bsdtar (libarchive), whose listing must equal the source tree",
        assumptions=["the reader in harness/isoread is written from ECMA-119/Joliet and anchored on the repository's third-party testimg.iso",
                     "names outside the portable class and siblings colliding after upper-casing belong to C08 and are not generated here"],
        units=[
            dict(test="TestC07Trees", unit="trees", kind="rapid", checks=(1200, 24000), shards=(8, 16), bin=True),
            dict(test="TestC07Giant", unit="giant", kind="rapid", checks=(64, 1600), shards=(4, 16)),
        ],
    ),
    "C08": dict(
        level="exploration",
        technique="property-based testing (rapid): generated trees incl. hostile names -> image -> strict validator written from ECMA-119/Joliet (DESIGN Appendix D)",
        rule="the C07 tree space plus long names (64..255 bytes), non-ASCII names, names with spaces/punctuation, siblings colliding after upper-casing or after "
             "character mapping, directories with up to 300 entries (records spill over sectors), (thorough) > 1000 directories, PS3 PARAM.SFO with 0..8 extra keys in any "
             "order; only images whose creation succeeds are judged; the validator checks exactly the invariants the property lists (size = announced = space size, "
             "descriptors, both-endian fields, record length/straddle, ./../child links, L=M path tables complete and pointing right, extents inside/disjoint, zero "
             "padding, PS3 sectors 0/1). non-trivial = directory records exceed one sector, or a name >= 64 characters, or non-ASCII, or > 100 directories, or colliding "
             "names; distinct by (route, mode, order seed, tree shape). The terminator descriptor's version is checked like the others'. Unit too-many-dirs: a synthetic tree of 65 794 directories must be refused (or have complete path tables). Also counted: a volume whose primary or Joliet path table fills its last sector exactly (directory names constructed for it).",
        assumptions=["the validator's clauses are those of DESIGN Appendix D, each with a negative self-test (TestIsoreadNegative)",
                     "ECMA-119 requirements the property does not name (;1 suffix, record sort order, d-character sets) are not checked"],
        units=[
            dict(test="TestC08Valid", unit="valid", kind="rapid", checks=(1600, 32000), shards=(8, 16), bin=True),
            dict(test="TestC08Negative", unit="negative", kind="enum", shards=(1, 1)),
            dict(test="TestC08TooManyDirs", unit="too-many-dirs", kind="enum", shards=(1, 1)),
        ],
    ),
    "C18": dict(
        level="exploration",
        technique="metamorphic property testing (rapid): several opens of one unchanged tree by different routes, byte-wise diff under the documented mask",
        rule="trees from the C07/C08 generators (incl. hostile names, wide directories), both modes, 2..6 successive or concurrent opens of the same unchanged "
             "directory through the library, the network and make-iso; all images must have equal size and be byte-identical after masking exactly bytes 813..846 of "
             "sectors 16 and 17 and, in PS3 mode, bytes 64..511 of sector 1; creation must fail for all opens or for none. non-trivial = tree with >= 2 directories and "
             ">= 3 files opened by >= 2 different routes; distinct by (mode, concurrency, route list, tree shape). Each open may spell the directory path differently (trailing separator, /., //). Unit same-server: 2-8 clients of ONE server open the same image at the same instant (barrier) and read all of it concurrently in chunks of 2 KiB..1 MiB from different starting points; every byte must equal what a lone client saw (trees with 150-400 directories and a file of 1-6 MiB in 2/3 of the cases)",
        assumptions=["the directory order is the filesystem's own and unchanged between opens (the permuting wrapper is not used here)",
                     "concurrent opens sample the scheduler; they do not enumerate interleavings"],
        units=[
            dict(test="TestC18Reopen", unit="reopen", kind="rapid", checks=(800, 16000), shards=(8, 16), bin=True),
            dict(test="TestC18SameServer", unit="same-server", kind="rapid", checks=(160, 3200), shards=(8, 16)),
        ],
    ),
    "C05": dict(
        level="exploration",
        technique="model-based property testing (rapid): request histories mixing mutating and non-mutating opcodes vs. reference model + full snapshots of the root; real-binary slice per configuration channel",
        rule="sessions of 2..30 steps over uploads (CREATE + 0..6 WRITE chunks of 0..3*64 KiB+1 bytes to new / existing / directory / nested / missing-parent / virtual-image "
             "targets), stray WRITEs, DELETE/RMDIR/MKDIR of existing, missing and wrong-kind paths, read-back of uploaded files through OPEN+READ, interleaved with "
             "listing/stat/open requests; writing disabled in 1/3 of the cases: every mutating request must get the failure code and the recursive snapshot (names, kinds, "
             "sizes, mtimes, hashes) of the root must be identical afterwards; enabled: each WRITE reply equals the chunk length and the file grew by exactly the payload, "
             "CREATE truncates/creates, DELETE/MKDIR/RMDIR are truthful and change nothing but their target, virtual-image paths are never creatable. unit bin: the same gate "
             "on the real binary with writing enabled by flag, environment, --config INI and ./config.ini. non-trivial = mutating request after a state-changing non-mutating "
             "one, or an upload with >= 2 chunks or a chunk > 64 KiB, or CREATE of an existing file; distinct by (write mode, transport, request list). Unit huge: one WRITE_FILE of 2^31 bytes (thorough: also 2^31-1 and 2^32-1) - refused with nothing written, or acknowledged with its exact count. Also counted: DELETE/RMDIR aimed at a symbolic link (to a directory, to a file, to nothing).",
        assumptions=[INPROC, "mutations of a path that is currently open on the same connection make later effects unobservable to the model (counted as don't-care)"],
        units=[
            dict(test="TestC05Sessions", unit="sessions", kind="rapid", checks=(1600, 40000), shards=(8, 16)),
            dict(test="TestC05Bin", unit="bin", kind="enum", shards=(5, 5), bin=True),
            dict(test="TestC05Huge", unit="huge", kind="enum", shards=(1, 3)),
        ],
    ),
    "C06": dict(
        level="exploration",
        technique="model-based property testing (rapid): listing/stat/dir-size replies vs. the harness's own lstat/stat walk, as multisets, over interleavings of the three listing commands",
        rule="trees with empty directories, single entries, a directory of 40..400 (thorough: 3000) entries, nesting, names up to 255 bytes incl. non-ASCII and punctuation, "
             "symlinks to files, directories, nothing and the parent's siblings; sessions open 1..5 directories (several spellings) and interleave READ_DIR_ENTRY, "
             "READ_DIR_ENTRY_V2 and READ_DIR until past the end marker, mixed with STAT/DIR_SIZE, then STAT every path and DIR_SIZE every directory/link of the tree; the "
             "model keeps the set of not-yet-reported names per open directory: each reported entry must be in it with true name, kind, size (0 for directories), mtime, "
             "ctime and atime (window between open and report; masked in pipelined bursts), dangling links must never be reported, the end marker / bulk listing must "
             "come exactly when every resolvable entry was reported, an exhausted handle lists nothing. non-trivial = a directory with >= 2 entries enumerated with >= 2 "
             "entry-by-entry calls, or STAT/DIR_SIZE of a non-root path; distinct by (directory shape, path). Trees may contain links leading back to the directory itself or an ancestor, and a real directory named like a virtual-image prefix; dir-size truth follows links entering every real directory once (or counts regular files proper; the every-path reading only where no cycle exists). Also counted: a history in which the directory held open is replaced (by another directory or by a file) or removed behind the server and opened again on the same connection.",
        assumptions=[INPROC, "subtrees with symlink cycles are not generated for DIR_SIZE; a sum following links and a sum of regular files proper are both accepted"],
        units=[
            dict(test="TestC06Listing", unit="listing", kind="rapid", checks=(1200, 24000), shards=(8, 16)),
        ],
    ),
    "C01": dict(
        level="exploration",
        technique="property-based testing (rapid): constructed hostile paths x 8 opcodes in histories, judged by (1) clamped-or-nonexistent response model, (2) marker scan, (3) sentinel-tree snapshot, (4) two-world metamorphic run",
        rule="a world = scratch directory holding the served root (generated tree + PS3ISO/g.iso with a plausible region table, a game directory, sub-directories) surrounded by "
             "sentinels: siblings named <root>-other, <root>x, <root>.bak, an unrelated sibling, files beside the root, key files in outside REDKEY/PS3ISO directories; every "
             "outside name and content carries a marker, sizes come from a reserved set. paths are built from segments {.., ., empty, names inside, sibling names, the root's "
             "own name, marker names, ***DVD***/***PS3***, CLOSEFILE, PS3ISO, REDKEY, 255-byte name, NUL-containing name, backslash forms}, 1..7 segments, doubled separators, "
             "with/without leading/trailing separator or virtual prefix, up to 64 KiB long, sent with each of the 8 path-carrying opcodes inside histories (listing reads, READ/"
             "WRITE follow-ups), writing on and off. oracle: a path whose lexical walk leaves the root must be answered like its clamped form or exactly like a non-existent "
             "path (for mutating requests: effect on the clamped target or none, reply truthful); no reply byte stream may contain an outside marker (ASCII/UTF-16BE); the "
             "recursive snapshot of everything outside the root must be identical before/after; for read-only sessions the reply stream must be byte-identical when the "
             "outside is emptied. unit bin: the same on the real binary with the root spelled absolute / relative / default '.' / './x/' / trailing slash / via 'dir/../x' (as written) / via 'link/../x' with link a symlink (the system's resolution decides). non-trivial = "
             "path that leaves the root lexically, or carries NUL / over-long / doubled-separator / virtual-prefix / prefix-sibling segments; distinct by (opcode, shape, write "
             "mode, target+spelling, path). 1/6 of the write-enabled cases serve an empty root and aim RMDIR/DELETE/CREATE/MKDIR at paths that clamp to '/'; the root's own entry in its parent directory must stay the same directory (by identity). Also counted: a path longer than PATH_MAX as sent that is short once cleaned (stretched with './', doubled separators, 'x/../').",
        assumptions=[INPROC + " (unit bin runs the real binary)", "symlinks inside the root are followed by design and are not generated here"],
        units=[
            dict(test="TestC01Inproc", unit="inproc", kind="rapid", checks=(2400, 60000), shards=(8, 16)),
            dict(test="TestC01Bin", unit="bin", kind="rapid", checks=(96, 1600), shards=(8, 16), bin=True),
        ],
    ),
    "C10": dict(
        fuzz=[('FuzzC10', 120)],
        level="exploration",
        technique="model-based property testing (rapid): Read/Seek/ReadAt sequences on the decrypting view vs. an independent AES-CBC reference decryptor (cross-checked against the openssl CLI)",
        rule="16-byte keys, region tables with 2..255 plain regions (adjacent regions, gaps of 0/1/few sectors, second region at sector 1, last region ending at or beyond the "
             "file), images of 2..600 sectors with random content (1/6 with a partial trailing sector), header clearing on/off, the underlying file's Read cut at seeded "
             "points in 2/3 of the cases; 1..30 operations with offsets relative to region borders / table end / file end (deltas -2049..+2049) or absolute, lengths "
             "1..64 KiB incl. 15/16/17, 2047/2048/2049, 3 sectors +-1; every result compared with the reference plaintext under the io.Reader/io.ReaderAt/io.Seeker "
             "contracts, then io.ReadAll of the whole view; invalid tables (count 0/1, first start != 0, end <= start, decreasing, table beyond the file, count 4096) "
             "must be rejected by the constructor. non-trivial = a read that starts or ends inside an encrypted sector, or spans a region border, or touches the cleared "
             "table; positional and sequential counted separately; distinct by (kind, offset mod 2048, length, region count, clearing). Unit giant: synthetic stored files of "
             "4 GiB..16 TiB (bytes = PRF of the offset, no disk space) with a valid table whose last plain region often lies just below sector 2^31 (one enormous encrypted gap), "
             "ReadAt and Seek+Read at region borders, 2^31, 2^32, 2^42 (sector 2^31), 2^43 (sector 2^32), the end of the file, 2^k+-delta up to 2^63, compared sector by sector with the "
             "reference (sectors from 2^31 on are plain); non-trivial there = a read at sector >= 2^31, inside a gap beyond sector 2^20, or behind the end",
        assumptions=["crypto/aes and crypto/cipher are trusted; the reference's key derivation and sector decryption agree with the openssl CLI (refcrypt self-test)",
                     "whether a plain region's End sector itself is decrypted is a don't-care fixed consistently per run (DESIGN 2.1)"],
        units=[
            dict(test="TestC10Lib", unit="lib", kind="rapid", checks=(4000, 100000), shards=(8, 16)),
            dict(test="TestC10Giant", unit="giant", kind="rapid", checks=(2000, 40000), shards=(4, 16)),
        ],
    ),
    "C11": dict(
        level="exploration",
        exhaustive_whole=True,
        technique="exhaustive enumeration of the layout product against the harness's own decision table + reference decryptor; library and network routes",
        rule="layouts from the product {PS3ISO, ps3iso, Ps3Iso, PS3ISOX, GAMES} x {.iso,.ISO,.Iso,.bin} x nesting 0..2 below the PS3ISO element x {no key, adjacent, REDKEY, both "
             "with different keys, malformed adjacent, malformed adjacent + REDKEY; in a separate block: a directory, a self-referencing symbolic link or a unix socket named like the adjacent key file, with and without a REDKEY key} x {no watermark, encrypted 3k3y watermark with embedded key, decrypted watermark} x file length "
             "{0xF6F, 0xF70, 0x106F, 0x1070, 8 sectors, 8 sectors+100} x {directly under the root, below a prefix directory; separately: below a directory whose own name contains the PS3ISO spelling, with a decoy key where a textual replacement would look}; both tiers enumerate the whole product (15 120 layouts + 48 long-name cases). the "
             "view obtained through FS.Open (2/3) or the network server (1/3) must equal the reference chosen by "
             "the decision table (adjacent key > REDKEY key > embedded 3k3y key + mask > mask only > identity), read as a whole and through 13 windows overlapping 0xF70..0x1070 by "
             "ReadAt, Seek+Read and both network read commands; files opened for writing (O_RDWR, O_RDWR|O_SYNC, O_RDWR|O_APPEND, O_WRONLY) read back and store bytes verbatim; every library case is opened a second time by its absolute path on a plain (not re-rooted) OsFs and must give the same view. non-trivial = every layout; distinct by all factors",
        assumptions=["don't-cares: masking of the 3k3y area when a key file applies as well; a malformed key may fail the open or fall back to another documented source; End-sector reading as in C10"],
        units=[
            dict(test="TestC11Product", unit="product", kind="enum", shards=(16, 16)),
        ],
    ),
    "C17": dict(
        level="exploration",
        technique="model-based property testing (rapid): synthesised raw CD images x sector reads vs. the user-data slices computed by the harness",
        rule="1..3 sparse raw images per case with sector size from {2048,2328,2336,2340,2352,2368,2448}, an ISO 9660 (\\x01CD001) or PLAYSTATION signature in the 16th sector "
             "or none, sizes at 2 MiB+-2, 848 MiB+-2, below, above and inside the detection window; PRF data is laid down wherever the case reads (for the true, the default and "
             "the 2048 stride, and where swapped arguments would land) so any offset mix-up yields different bytes; sessions re-open images of different sector size on one "
             "connection, CLOSEFILE, and issue READ_CD_2048 with (start, count) incl. start != count, count 0, ranges crossing EOF; reply must be the concatenation of "
             "raw[24 + k*s, +2048) for k = start..start+count-1 with s detected by the harness's own reading of the rule (2352 when undetectable or outside the window), an "
             "EOF-crossing read a correct prefix then end of connection. non-trivial = start != count and s not in {2048, 2352} with a signature inside the window; distinct by "
             "(sector size, signature, image size, start, count). Histories may replace the open image under its name by one of another sector size (the files exchange names) and open it again, mostly without CLOSEFILE",
        assumptions=[INPROC],
        units=[
            dict(test="TestC17CD", unit="cd", kind="rapid", checks=(1600, 40000), shards=(8, 16)),
        ],
    ),
    "C13": dict(
        level="fault_enumeration",
        technique="fault enumeration over an instrumented afero.Fs under the real handler (open/close ledger, error at op k, short read at read k) + model-based checking of every reply; rapid-generated histories with one fault or ending",
        level_text="every single-fault position of 9 fixed scenarios is enumerated, pairs and generated histories are sampled; replies are judged by the reference model in its post-fault mode",
        rule="scenarios over one fixture tree: plain-file reads, a ***DVD*** image with lazily opened members, a ***PS3*** image (PARAM.SFO), an encrypted image with adjacent key, one with "
             "REDKEY key, a 3k3y image, directory enumeration with all three commands (symlinks, dangling link, re-open, failed opens), uploads with MKDIR/DELETE/RMDIR, and a "
             "mixed-state history. for each: the fault-free run counts the filesystem operations K (open, openfile, stat, fstat, read, readat, seek, readdir, readdirnames, write, "
             "close, remove, mkdir) and reads R; then an injected error (EIO/EACCES/ENOENT/EMFILE by index) at EVERY k < K in turn, a short read at EVERY r < R, every ending "
             "(half-close, close, RST, truncated request, unknown opcode, 150 ms read timeout) after EVERY prefix of the history, and seeded pairs (k1,k2). oracle: before a "
             "fault fires the strict protocol model (the expected content of a generated image is what the library builds from the same directory past the fault layer, compared under the C18 mask); after it fired each reply must be the correct one, the opcode's failure code, an entry-by-entry listing that skips what it could not stat, a bulk listing that is empty, complete or lacks only symbolic links, or a correct "
             "prefix followed by the end of the connection - never other bytes; after the connection ended the ledger must be balanced (every opened handle closed, incl. member "
             "files of images, key files, PARAM.SFO, scanned directories), the goroutine count back at its baseline, and a fresh connection served. unit random: rapid histories "
             "(C03 generator + image/encrypted opens) with one random fault or ending. non-trivial = an injected fault that fired while >= 1 handle was open, or an ending at a "
             "point of a history; distinct by (scenario, mode, index, errno, ending). Fault shapes: error without data, short read without error (sequential reads), some bytes AND an error (sequential and positional reads; the error is EIO in mode partial-read and io.EOF - although the file goes on - in mode partial-eof), a directory read that hands out 1..4 entries AND an error (mode partial-list, at every directory-read index). Scenarios include a raw CD image with 2448-byte sectors (sector-size probe) and a named pipe (open must answer)",
        assumptions=[INPROC, "faults are injected at the afero.Fs boundary (errors and short reads), not inside the kernel",
                     "DIR_SIZE after a fault may report any value up to the true total (the walk skips what it cannot read by design)",
                     "a lookup made to fail with ENOENT legitimately selects another documented key source (C11 don't-care)"],
        units=[
            dict(test="TestC13Enum", unit="enum", kind="enum", shards=(16, 16)),
            dict(test="TestC13Random", unit="random", kind="rapid", checks=(1600, 40000), shards=(8, 16)),
        ],
    ),
    "C12": dict(
        level="exploration",
        technique="property-based testing (rapid) of concurrent sessions, each judged by its own sequential reference model; the same unit under the Go race detector",
        rule="2..16 (thorough: up to 64) concurrent clients against one in-process server under GOMAXPROCS 1/2/4/16; each client's history (3..25 requests, 1/4 of the clients reconnect "
             "mid-way) mixes reads of up to 400 000 bytes (several pool buffers) on shared files, the SAME generated image (***DVD***/GAME) and an encrypted image, CD sector reads, "
             "listings of static directories, CLOSEFILE, and uploads/mkdir/delete inside a private subtree; every client's reply stream must equal what it would get alone "
             "(its own reference model over the shared static data and its private subtree). unit race: the same cases in a -race build of the real server code; any race report "
             "fails the run. non-trivial = >= 2 clients with transfers larger than one 64 KiB buffer on the same object; distinct by (clients, GOMAXPROCS, total requests, objects)",
        assumptions=[INPROC, "interleavings are sampled (many runs, varied GOMAXPROCS, large transfers), not enumerated; the race detector reports only races on executed paths",
                     "schedule-dependent failures cannot be shrunk or replayed deterministically: the failing client's history is printed"],
        units=[
            dict(test="TestC12Concurrent", unit="concurrent", kind="rapid", checks=(400, 12000), shards=(8, 16)),
            dict(test="TestC12Race", unit="race", kind="rapid", checks=(160, 3200), shards=(8, 16), race=True),
        ],
    ),
    "C15": dict(
        level="exploration",
        technique="property-based testing (rapid): generated whitelists x client source addresses, and generated arrival/departure schedules against a queue model of the client limit; in-process wrappers composed as in cmd/ and the real binary with flags",
        rule="whitelist: specifications (single, range, CIDR /8../32, netmask) over 127.0.0.0/8 and ::1 with client sockets bound to source addresses at both borders +-1, random others and "
             "127.0.0.1; a client inside the set must get its 33-byte STAT reply and its MKDIR must take effect, a client outside must receive zero bytes, be closed by the server and its "
             "MKDIR must never appear. limit: N in 1..8, schedules of up to 12N arrive/depart events over up to 4N clients, 1/5 of the arrivals from non-whitelisted addresses; after every "
             "step the clients the FIFO model says hold a slot must have their reply (deadline 5 s, a miss is re-run once), rejected ones must be closed without a byte, waiting ones must "
             "have received nothing (60 ms silence window; any byte is a violation); finally all leave and N fresh clients must all be served within 6 s. units *-bin run the same against "
             "the real binary (--client-whitelist, --max-clients). non-trivial = a client address within 1 of a whitelist border / a schedule where a waiting client is later served or a "
             "rejected arrival happens while the slots are full; distinct by (target, spec, address) / (target, N, schedule)",
        assumptions=["loopback source addresses 127.x.y.z and ::1 stand for arbitrary peers", "silence is observed for a fixed window; liveness (served after a slot is freed) is a bounded-time check with a generous deadline",
                     "the in-process units compose LimitListener and FilterListener in the same order as cmd/ps3netsrv-go/server.go; the *-bin units exercise the real wiring"],
        units=[
            dict(test="TestC15Whitelist", shrink_s=4, unit="whitelist", kind="rapid", checks=(400, 4000), shards=(8, 16)),
            dict(test="TestC15WhitelistBin", shrink_s=4, unit="whitelist-bin", kind="rapid", checks=(24, 480), shards=(8, 16), bin=True),
            dict(test="TestC15Limit", shrink_s=4, unit="limit", kind="rapid", checks=(64, 1600), shards=(16, 16)),
            dict(test="TestC15LimitBin", shrink_s=4, unit="limit-bin", kind="rapid", checks=(16, 320), shards=(8, 16), bin=True),
        ],
    ),
    "C16": dict(
        level="exploration",
        technique="property-based testing (rapid) of timing scripts with sound bounds from client-side timestamps; in-process (ledger fs) and real binary (--read-timeout, /proc/<pid>/fd)",
        rule="read timeout T from {150,200,300,500,800,1500} ms; scripts: silent after connect, silent after k in 1..12 requests, stalled after 1..40 bytes of a request (inside the 16-byte command "
             "or inside the path), and active connections issuing a request every 0.1T..0.8T for 5..30 T, half of all scripts holding an open file and an open directory. bounds: a cut earlier "
             "than T-15 ms after the client BEGAN its last complete request is a violation; an idle or stalled connection must be cut within T+max(600 ms, T) (a miss is re-run once and counts only "
             "if it repeats); an active connection must have every request answered unless the measured spacing reached 0.8T (then the case is counted inconclusive, not judged); after the cut the "
             "handle ledger (in-process) or the process's descriptor count (binary) must be back at its baseline. non-trivial = an active connection that lived >= 5T with >= 10 requests, or a "
             "stall inside a request; distinct by (T, script parameters, target). The incomplete request may be a STAT, an OPEN_FILE or a WRITE_FILE (command + payload) and may stop or keep trickling in at 0.2-0.8 T; unit matrix enumerates these shapes in both tiers. Script deaf: a client requests 1 GiB (one ordinary or critical read, or 4000 pipelined reads) and then neither reads nor sends - file and connection must be released within T + slack",
        assumptions=["wall-clock, not a virtual clock: the bounds are sound (client-side timestamps, overload counted as inconclusive), so the check cannot false-alarm but under-tests on a busy machine",
                     "liveness ('is eventually cut') is a bounded-time check with generous slack"],
        units=[
            dict(test="TestC16Idle", unit="idle", kind="rapid", checks=(48, 1200), shards=(16, 16), shrink_s=5),
            dict(test="TestC16IdleBin", unit="idle-bin", kind="rapid", checks=(16, 320), shards=(16, 16), shrink_s=5, bin=True),
            dict(test="TestC16Matrix", unit="matrix", kind="enum", shards=(16, 16), bin=True),
        ],
    ),
    "C19": dict(
        level="exploration",
        technique="enumeration of the (setting x channel x value) product and of conflicting channel pairs on the real binary, judged by observed behaviour",
        rule="9 observable settings (root, listen-addr, allow-write, client-whitelist, max-clients, read-timeout, debug, json-log, debug-server-listen-addr) x 7 channels (flag, environment "
             "variable, --config file, PS3NETSRV_CONFIG_FILE file, ./config.ini, $HOME/.config/ps3netsrv-go/config.ini, $XDG_CONFIG_HOME/ps3netsrv-go/config.ini) x 2 distinguishable values: "
             "the started binary must show the effect of the given value (which marker file it serves, which port accepts, whether MKDIR succeeds, which of 127.0.0.2/127.0.0.3 is admitted, "
             "how many clients are served at once, whether an idle connection is cut within 2 s, whether debug lines appear, whether every stdout line parses as JSON, on which port pprof "
             "answers); every flag-vs-other-channel pair with conflicting values must show the flag's effect; other channel pairs (all in thorough, 1/3 in quick) must show one of the two "
             "values; a malformed value for whitelist / max-clients / root / read-timeout in any channel must stop start-up (nothing listening, non-zero exit, no crash). non-trivial = two "
             "channels in conflict, or a non-flag channel alone; distinct by (setting, channel list, values). Malformed forms per security-relevant setting: wrong syntax, a second wrong form (root = a regular file, 300.1.1.1, 1.5, a duration without unit), the empty value. Every second case runs in a working directory that holds directories named server, decrypt and make-iso. Home cases: --config=~/f.ini and PS3NETSRV_CONFIG_FILE=~/f.ini with the file in the user's real home directory (skipped when it is not writable), incl. a missing one. File states per channel: missing, broken (unclosed section header), UTF-16LE with byte order mark (what a windows editor calls Unicode); for files named by flag or environment also: not readable by the server's user (the binary is started as uid 65534 with a root-owned 0600 file; skipped when the harness is not root)",
        assumptions=["the real binary built from the working tree is observed through TCP, stdout, exit status and /proc; precedence between non-flag channels is a don't-care (one of the given values)"],
        units=[
            dict(test="TestC19Config", unit="config", kind="enum", shards=(16, 16), bin=True),
        ],
    ),
    "C20": dict(
        level="exploration",
        technique="property-based testing (rapid) of the real CLI: differential against the library image (make-iso) and against the reference decryptor (decrypt), hash/mtime snapshots for clobbering, serve-back through the server",
        rule="make-iso over C07 trees (both modes, hostile root names) and decrypt redump / decrypt 3k3y over C10 images (random keys, 2..255 regions, 6..120 sectors) with the output given as a "
             "new path, '-' (standard output captured as a byte stream), an existing file, an existing directory or a symlink to an existing file. make-iso output must equal the library's image of "
             "the same directory and mode under the C18 mask (and fail when the library refuses the tree); decrypt output must equal the reference plaintext with cleared region table (3k3y: the "
             "256-byte area is a don't-care); with a pre-existing output the tool must exit non-zero and the recursive snapshot (hash, size, mtime) of the scratch directory must be unchanged; a "
             "successful output is then placed under a served root (in PS3ISO, ps3iso/sub, ISOS or the root) and read back through OPEN/READ_FILE/READ_CRIT: bytes must equal the tool output (the "
             "3k3y area masked or not). non-trivial = existing output, stdout output, or serve-back; distinct by (tool, output kind, location, seed). Unit race: 2-4 decrypt runs with different inputs started together on one new output path, 4-10 rounds per case - at most one may succeed, and the file is then exactly its output. Half of the redump inputs carry a 3k3y mark (encrypted or decrypted form) in their plain first region: the output served back must not be transformed again; a quarter carry the mark inside the plaintext of an encrypted sector (first plain region = sector 0 alone); no output of a decrypt tool may carry a 3k3y mark",
        assumptions=["the real binary built from the working tree is run as a subprocess; the library image is the oracle for make-iso (its own correctness is C07/C08)"],
        units=[
            dict(test="TestC20Tools", unit="tools", kind="rapid", checks=(480, 12000), shards=(8, 16), bin=True),
            dict(test="TestC20Race", unit="race", kind="rapid", checks=(64, 1600), shards=(8, 16), bin=True, shrink_s=5),
        ],
    ),
    "C04": dict(
        fuzz=[('FuzzSFO', 90), ('FuzzImage', 90), ('FuzzStream', 90), ('FuzzINI', 30)],
        level="exploration",
        technique="structure-aware fuzzing (rapid) of hostile sessions against a worker process hosting the real binary under an address-space limit, hostile on-disk content through the library constructors and the CLI; native go fuzz targets in the thorough tier",
        rule="unit sessions: a worker = the real server binary under 'ulimit -v 8000000' over a static hostile fixture (about 60 malformed PARAM.SFO variants incl. TITLE_IDs with fewer characters than bytes and values shorter than their zero-padded slot, encrypted images with region counts 0/1/256/2^31/"
             "2^32-1, non-monotonic and beyond-EOF tables, truncated images, short/non-hex/huge/empty key files, 3k3y images at lengths 0x106F/0x1070 and with broken tables, PSX images, a 16 MiB sparse "
             "file, 40 levels of nesting, 600 entries in one directory, 255-byte, non-UTF-8, newline and prefix-looking names, symlink loops). each case = 1..3 concurrent sessions of 1..25 hostile "
             "requests: opens of every fixture object plain and through ***DVD***/***PS3***, reads with limits/offsets from {0,1,2047..2049,0xF6F,0xF70,0x1070,6143,6144,2^31,2^32,2^63-1,2^63,2^64-1}, "
             "CD reads with counts up to 2^32-1, uploads announcing up to 2^32-1 bytes, random bytes, valid opcodes with random tails, 64 KiB paths; afterwards a probe STAT on a fresh connection "
             "must be answered, the worker must be alive and its output free of 'panic:'/'fatal error:'. unit content: mutated PARAM.SFO / region-table / key / 3k3y contents and hostile trees fed to "
             "FS.Open (in-process, synchronous, panics caught) with Read/Seek/ReadAt scripts, and (1/4) to make-iso / decrypt of the real binary under the same limit: exit status 0 or 1 with a message, "
             "never a goroutine dump. non-trivial = a session that opened a generated or decrypted image and read it unaligned / content that passes its parser's first magic or length check; distinct "
             "by request list / content bytes. The fixture also holds a 5 GiB file, trees of 5-9 TiB of sparse data and a 5 TiB encrypted image; counts up to 2^32-1 and offsets 2^k+-delta (k = 31..63) are part of the request alphabet. Unit descriptors: the real binary under ulimit -n 64/256, one client reading the whole image of a tree with 3x as many files and staying connected, 2x as many idle connections coming and going - the process must survive, every read must complete, a new client must be served. Sparse PARAM.SFO files (fixture directories GAME_sfo-sparse-*, content kind sfosparse): a declared value length of 1/2/4 GiB or an entry count of 2^32 backed by the file's length - the server must survive the open, the tools must end within 3 minutes with an error. Unit linkdag: the real binary under ulimit -v 3 GiB, a tree of k levels of directories each reached through f symbolic links from the level above (f^k paths, no cycle; 2^15 x 300, 2^12 x 3000, 3^9 x 400, 2^17 x 40 files by path and a harmless one), OPEN_FILE of its image in both modes: the image may be refused, the process must live and serve a probe",
        assumptions=["the address-space limit (8 GB) is an assumption of the crash oracle: it makes count-driven allocations fatal on any host",
                     "replies are not judged here (C02/C03/C13 do that): only survival, liveness and the absence of crash signatures",
                     "the tools' 3-minute bound is three orders of magnitude above their running time on these inputs (milliseconds); it stands for 'believes a number it read', not for speed"],
        units=[
            dict(test="TestC04Sessions", unit="sessions", kind="rapid", checks=(1600, 48000), shards=(8, 16), bin=True),
            dict(test="TestC04Content", unit="content", kind="rapid", checks=(2400, 80000), shards=(8, 16), bin=True),
            dict(test="TestC04Descriptors", unit="descriptors", kind="enum", shards=(5, 10), bin=True),
            dict(test="TestC04LinkDag", unit="linkdag", kind="enum", shards=(5, 9), bin=True),
        ],
    ),
}
