# Per-property configuration of the driver: which test units make up a check,
# their case counts per tier (quick, thorough), sharding and needs.
# kind: rapid (random generation, -rapid.checks split over shards) | enum (enumerated
# case list split over shards by index).

INPROC = "the in-process target duplicates the two lines of wiring of cmd/ps3netsrv-go/server.go (BasePathFs + pkg/fs.FS + handler); the kernel's filesystem and loopback TCP are trusted"

CHECKS = {
    "C03": dict(
        level="exploration",
        rule="sessions = request histories over all 15 opcodes against a generated tree, checked reply by reply against an independent "
             "nondeterministic reference model of the protocol, ending with a half-close that must yield a clean end of stream; "
             "units: enum (all sequences over a 29-request alphabet up to length 2/3 x writing on/off), trunc (every truncation point of every alphabet request), "
             "random (rapid histories of 1..40 requests, transports sync/pipelined/split). non-trivial = visits >= 2 state components, or an upload with payload "
             "followed by another request, or a truncated/unknown request, or a pipelined burst; distinct by (write mode, transport, request list)",
        assumptions=[INPROC, "a missing reply counts only if it repeats on a second run of the same case (timeouts are never judged alone)"],
        units=[
            dict(test="TestC03Enum", unit="enum", kind="enum", shards=(8, 16)),
            dict(test="TestC03Trunc", unit="trunc", kind="enum", shards=(4, 4)),
            dict(test="TestC03Random", unit="random", kind="rapid", checks=(2400, 48000), shards=(8, 16)),
        ],
    ),
}
