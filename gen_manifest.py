#!/usr/bin/env python3
"""Regenerates MANIFEST.json from checkcfg.py (one source of truth)."""
import json, os, sys
sys.path.insert(0, os.path.dirname(os.path.abspath(__file__)))
from checkcfg import CHECKS
props = [json.loads(l) for l in open(os.path.join(os.path.dirname(__file__), "properties.jsonl"))]
BASE = json.load(open("/root/.vp/BASELINE.json"))
checks, na = [], []
for p in props:
    pid = p["id"]
    c = CHECKS.get(pid)
    if not c or c.get("disabled"):
        na.append({"property_id": pid, "reason": (c or {}).get("na_reason", "check not built yet (work in progress); the design for it is DESIGN.md section 3")})
        continue
    checks.append({
        "property_id": pid,
        "quick_cmd": "./check %s quick" % pid,
        "thorough_cmd": "./check %s thorough" % pid,
        "evidence_file": "/verif/evidence/%s.json" % pid,
        "replay_cmd_template": "./check %s --replay {path}" % pid,
        "engine": "pbt-harness",
        "level_claimed": {"category": c.get("level", "exploration"), "text": c.get("level_text", "generated-input search against an explicit oracle; see rule in the evidence file"), "design_ref": "DESIGN.md section 3, " + pid},
        "level_note": "; ".join(c.get("assumptions", [])) or "see DESIGN.md",
        "technique": c.get("technique", "property-based testing (rapid) against an independent oracle"),
    })
m = {
    "version": 1,
    "setup_cmd": "./check --build",
    "hooks": {
        "guard": "verif",
        "enable": "-tags verif",
        "baseline_off_cmd": "cd /repo && GOFLAGS=-mod=mod GOPROXY=off GOSUMDB=off GOTOOLCHAIN=local go test -json -vet=off -count=1 -timeout 25m ./...",
        "source_commits": [],
        "add_only": True,
    },
    "engines": [{"name": "pbt-harness", "path": "/verif/harness", "serves_properties": [c["property_id"] for c in checks],
                 "kind_free_text": "Go module with pgregory.net/rapid properties, enumerations and native fuzz targets; Python driver ./check shards, merges evidence, handles replay and known findings"}],
    "checks": checks,
    "not_applicable": na,
    "notes": "All checks rebuild /repo's working tree through a replace directive; no source hooks were needed (guard tag reserved, no hook commits). Defects found and repaired are listed in known_findings.txt as 'fixed:' lines.",
}
json.dump(m, open(os.path.join(os.path.dirname(__file__), "MANIFEST.json"), "w"), indent=1)
print("checks:", len(checks), "not_applicable:", len(na))
