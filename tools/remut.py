#!/usr/bin/env python3
"""remut.py <out.diff> <file> <old> <new> [<file> <old> <new>...] : make a mutant diff against current /repo by string replacement in a scratch copy; checks it builds."""
import sys, subprocess, shutil, tempfile, os
out=sys.argv[1]; triples=sys.argv[2:]
tmp=tempfile.mkdtemp(prefix="remut-")
try:
    subprocess.run(["rsync","-a","--exclude",".git","/repo/",tmp+"/a/"],check=True)
    subprocess.run(["rsync","-a","--exclude",".git","/repo/",tmp+"/b/"],check=True)
    for i in range(0,len(triples),3):
        f,old,new=triples[i:i+3]
        p=os.path.join(tmp,"b",f); s=open(p).read()
        old=old.encode().decode('unicode_escape'); new=new.encode().decode('unicode_escape')
        assert s.count(old)==1, (f, s.count(old), old)
        open(p,"w").write(s.replace(old,new,1))
    env=dict(os.environ,GOFLAGS="-mod=mod",GOPROXY="off",GOSUMDB="off",GOTOOLCHAIN="local")
    r=subprocess.run(["go","build","./..."],cwd=tmp+"/b",env=env,capture_output=True,text=True)
    if r.returncode!=0:
        print("BUILD FAILED",r.stderr[:800]); sys.exit(1)
    r=subprocess.run(["diff","-ruN","a","b"],cwd=tmp,capture_output=True,text=True)
    d=r.stdout
    open(out,"w").write(d)
    print("wrote",out,len(d.splitlines()),"lines")
finally:
    shutil.rmtree(tmp,ignore_errors=True)
