#!/usr/bin/env python3
"""recordfix.py <commit> <PROP[,PROP]> <text...> : revert diff into mutants/reverts, MAP.json entry, fixed: line."""
import sys, json, subprocess
c, props, text = sys.argv[1], sys.argv[2].split(','), ' '.join(sys.argv[3:])
c = subprocess.check_output(['git','-C','/repo','rev-parse','--short=7',c], text=True).strip()
d = subprocess.check_output(['git','-C','/repo','diff',c,c+'~1'], text=True)
open(f'/verif/mutants/reverts/{c}.diff','w').write(d)
p='/verif/mutants/reverts/MAP.json'
m=json.load(open(p)); m[c]=props
json.dump(m,open(p,'w'),indent=1)
open('/verif/known_findings.txt','a').write(f'fixed: property={props[0]} {c} {text}\n')
print('recorded', c, props)
