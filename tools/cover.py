#!/usr/bin/env python3
"""Which statements of the repository do the generated cases of the checks reach?

  tools/cover.py [quick|thorough] [ID...]      default: quick, all properties

A measurement, not a check: every property's registered command is run once with VERIF_COVER set (the driver then
builds the test binary and the CLI with `-cover -coverpkg=<repository>/...`), the counters of all runs are merged and
the statements of non-test source files that NO generated case executed are written to coverage/uncovered.txt together
with a per-file summary (coverage/summary.json).  Evidence files are left as they were.  The server subcommand of the
real binary is ended by SIGKILL and therefore leaves no counters: cmd/ps3netsrv-go/server.go appears as unreached
although every *-bin unit runs it (its lines are reported separately).

Used to find blind spots of the generators (DESIGN 10): a block nobody reaches is a block where any change is invisible.
"""
import json, os, shutil, subprocess, sys, tempfile, collections

VERIF = os.path.dirname(os.path.dirname(os.path.abspath(__file__)))
MOD = "github.com/xakep666/ps3netsrv-go/"
ENV = dict(os.environ, GOFLAGS="-mod=mod", GOPROXY="off", GOSUMDB="off", GOTOOLCHAIN="local")


def main():
    args = sys.argv[1:]
    tier = "quick"
    if args and args[0] in ("quick", "thorough"):
        tier = args.pop(0)
    sys.path.insert(0, VERIF)
    from checkcfg import CHECKS
    pids = args or sorted(CHECKS)
    tmp = tempfile.mkdtemp(prefix="vcov-")
    try:
        for pid in pids:
            ev = os.path.join(VERIF, "evidence", pid + ".json")
            keep = open(ev).read() if os.path.exists(ev) else None
            d = os.path.join(tmp, pid)
            os.makedirs(d)
            r = subprocess.run([os.path.join(VERIF, "check"), pid, tier], cwd=VERIF, env=dict(ENV, VERIF_COVER=d), capture_output=True, text=True)
            if keep is not None:
                open(ev, "w").write(keep)
            print(pid, "rc=%d" % r.returncode, (r.stdout.strip().splitlines() or [""])[-1][:200], flush=True)
        dirs = ",".join(os.path.join(tmp, p) for p in pids if os.listdir(os.path.join(tmp, p)))
        prof = os.path.join(tmp, "profile.txt")
        subprocess.run(["go", "tool", "covdata", "textfmt", "-i=" + dirs, "-o", prof], check=True, env=ENV, cwd=os.path.join(VERIF, "harness"))
        report(prof, pids, tier)
    finally:
        shutil.rmtree(tmp, ignore_errors=True)


def report(prof, pids, tier):
    blocks = collections.defaultdict(dict)  # file -> (l0,c0,l1,c1) -> [nstmt, count]
    for line in open(prof):
        if line.startswith("mode:"):
            continue
        loc, n, c = line.rsplit(" ", 2)
        f, rng = loc.rsplit(":", 1)
        if not f.startswith(MOD) or f.startswith(MOD + "verif/") or f.endswith("_test.go") or "/testutil/" in f:
            continue
        b = blocks[f[len(MOD):]].setdefault(rng, [int(n), 0])
        b[1] += int(c)
    out = os.path.join(VERIF, "coverage")
    os.makedirs(out, exist_ok=True)
    summary, lines = {}, []
    for f in sorted(blocks):
        tot = sum(b[0] for b in blocks[f].values())
        hit = sum(b[0] for b in blocks[f].values() if b[1] > 0)
        summary[f] = dict(statements=tot, reached=hit, percent=round(100.0 * hit / tot, 1) if tot else 100.0)
        src = open(os.path.join("/repo", f)).read().splitlines()
        miss = sorted((tuple(int(x) for x in rng.replace(",", ".").split(".")) for rng, b in blocks[f].items() if b[1] == 0))
        for (l0, c0, l1, c1) in miss:
            text = " ".join(s.strip() for s in src[l0 - 1:l1])[:160]
            lines.append("%s:%d-%d  %s" % (f, l0, l1, text))
    tot = sum(v["statements"] for v in summary.values())
    hit = sum(v["reached"] for v in summary.values())
    json.dump(dict(tier=tier, properties=pids, repo_head=subprocess.run(["git", "-C", "/repo", "rev-parse", "--short", "HEAD"], capture_output=True, text=True).stdout.strip(),
                   statements=tot, reached=hit, percent=round(100.0 * hit / tot, 1), files=summary), open(os.path.join(out, "summary.json"), "w"), indent=1)
    open(os.path.join(out, "uncovered.txt"), "w").write("\n".join(lines) + "\n")
    print("reached %d of %d statements (%.1f %%); %d unreached blocks -> coverage/uncovered.txt" % (hit, tot, 100.0 * hit / tot, len(lines)))


if __name__ == "__main__":
    main()
