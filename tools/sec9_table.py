#!/usr/bin/env python3
"""Regenerates the seeded-change table of DESIGN.md section 9.1 from seeded/*/meta.json (between the table header and the next blank line)."""
import glob, json, os, re
V = os.path.dirname(os.path.dirname(os.path.abspath(__file__)))
rows = []
for d in sorted(glob.glob(os.path.join(V, "seeded", "*"))):
    m = json.load(open(os.path.join(d, "meta.json")))
    esc = lambda s: s.replace("|", "/").replace("***", "\\*\\*\\*")
    rows.append("| `%s` | %s | %s | %s | %s |" % (os.path.basename(d), "/".join(m.get("caught_by") or [m["property"]]), m.get("round", 1),
                                                esc(m.get("needs_to_manifest", "?")), esc(m.get("result", "?"))))
missed = sum(1 for d in glob.glob(os.path.join(V, "seeded", "*")) if "MISSED" in json.load(open(os.path.join(d, "meta.json"))).get("result", ""))
p = os.path.join(V, "DESIGN.md")
s = open(p).read()
hdr = "| seeded change | property | round | needs, in order to manifest | outcome |\n|---|---|---|---|---|\n"
i = s.index(hdr) + len(hdr)
j = s.index("\n\n", i)
s = s[:i] + "\n".join(rows) + s[j:]
open(p, "w").write(s)
print(len(rows), "rows,", missed, "missed at first")
