import sys, subprocess, shutil, tempfile, os
def remut(out, edits):
    tmp=tempfile.mkdtemp(prefix="remut-")
    try:
        subprocess.run(["rsync","-a","--exclude",".git","/repo/",tmp+"/a/"],check=True)
        subprocess.run(["rsync","-a","--exclude",".git","/repo/",tmp+"/b/"],check=True)
        for f,old,new in edits:
            p=os.path.join(tmp,"b",f); s=open(p).read()
            assert s.count(old)==1, (out, f, s.count(old), old[:80])
            open(p,"w").write(s.replace(old,new,1))
        env=dict(os.environ,GOFLAGS="-mod=mod",GOPROXY="off",GOSUMDB="off",GOTOOLCHAIN="local")
        r=subprocess.run(["go","build","./..."],cwd=tmp+"/b",env=env,capture_output=True,text=True)
        if r.returncode!=0:
            print("BUILD FAILED",out,r.stderr[:1500]); return
        d=subprocess.run(["diff","-ruN","a","b"],cwd=tmp,capture_output=True,text=True).stdout
        open(out,"w").write(d); print("wrote",out,len(d.splitlines()))
    finally:
        shutil.rmtree(tmp,ignore_errors=True)
